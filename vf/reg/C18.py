from kernels import K

# ---------------------------------------------------------------- C18
for _n, _tiers in ((1, ('quick', 'thorough')), (2, ('quick', 'thorough')), (3, ('quick', 'thorough')), (5, ('quick', 'thorough')),
                   (7, ('quick', 'thorough')), (8, ('thorough',))):  # nbpoly 10 (degrees 8, 9: sqrt(7), sqrt(8) join the tower): no verdict in 1200 s
    K('C18.a.%d' % _n, property='C18', engine='symex', harness='C18/hermite.cpp', entry='k_hermite',
      tus=['src/Polynomials/Hermite.cpp'], defines={'all': {'VF_N': _n}}, tiers=_tiers,
      bounds={'quick': 'nbpoly = %d (degrees 0..%d); y and r free reals (a continuum)' % (_n, _n - 1)},
      timeout_ms={'quick': 40000, 'thorough': 300000}, validate={'quick': 25, 'thorough': 50}, symex={'sqrt_memo': True},
      what='hermitePolynomials(y, r, nbpoly): poly[k] == (-1)^k He_k(y)/sqrt(k!) * r^k against the textbook coefficient table of He_k',
      out='orthonormality of He_k/sqrt(k!) itself (textbook); rounding of the recurrence; nbpoly above the bound; hermiteCondExp*/hermiteCoefMetal and the other users',
      assumptions=['real-arithmetic reading; sqrt(k), sqrt(k!) are exact positive algebraic numbers',
                   'sign convention (-1)^k (Rodrigues form g^(k)/g of the geostatistical literature); orthonormality does not depend on it'])

for _nk in (2, 3, 4):
    for _part, _ents, _what in (
            ('inv', ['k_roundtrip_z', 'k_roundtrip_y'], 'mutual inverses on the table range (both orders), images inside the table range'),
            ('mono', ['k_monotone_clamp', 'k_monotone_clamp_inv'], 'both non-decreasing (two free query points), clamped to the end knots outside the range, knot maps to knot')):
        K('C18.c.%d.%s' % (_nk, _part), property='C18', engine='symex', harness='C18/empirical.cpp', entries=_ents,
          tus=['src/Anamorphosis/AnamEmpirical.cpp'], defines={'all': {'VF_NK': _nk}},
          bounds={'quick': 'table with exactly %d knots, Z and Y strictly increasing free reals; query points free reals' % _nk},
          # portfolio of two z3 strategies per case: one of them answers within ~2 s, the other often runs into the timeout
          timeout_ms={'quick': 30000, 'thorough': 600000}, validate={'quick': 25, 'thorough': 50},
          what='AnamEmpirical::setDisc, rawToTransformValue, transformToRawValue: ' + _what,
          out='fitting of the table (dilution, normal score); tables with ties (not strictly increasing); more knots than the bound; rounding of the interpolation',
          assumptions=['real-arithmetic reading of the linear interpolation', 'Z and Y strictly increasing'],
          stubs=['AnamEmpirical object in raw storage: only _nDisc/_ZDisc/_YDisc initialised (constructors not run)'])


# ---- C18.b AnamHermite bound / extrapolation branches, expansion = strictly increasing uninterpreted function
def _mono_opts(symex, z3):
    """sinh stands for the Hermite expansion: an uninterpreted function with strict monotonicity instantiated on
    every pair of application terms present (nothing else is assumed about it)."""
    apps = []

    def axioms(f, args, app):
        x = args[0]
        ax = []
        for y, fy in apps:
            ax += [z3.Implies(x < y, app < fy), z3.Implies(x > y, app > fy)]
        apps.append((x, app))
        return ax
    return {'libm_axioms': {'sinh': axioms}}


def _sinh_native(x):
    import math
    from fractions import Fraction
    try:
        return Fraction(math.sinh(float(x)))   # concrete arguments (validation runs): the value the native libm returns
    except OverflowError:
        return None


for _ent, _id, _what in (
        ('k_raw', 'raw', 'transformToRawValue: inside [az.min, az.max]; non-decreasing over all y (two free points, across every zone boundary); the expansion itself when _flagBound is off'),
        ('k_gauss', 'gauss', 'rawToTransformValue outside the practical interval (constant and linear branches): inside [ay.min, ay.max]; non-decreasing (two free points); transformToRaw(rawToTransform(z)) == z clamped to the absolute interval'),
        ('k_lin_y', 'liny', 'y outside the practical interval: transformToRaw(y) inside the absolute interval; rawToTransform(transformToRaw(y)) == y clamped to the absolute interval')):
    K('C18.b.' + _id, property='C18', engine='symex', harness='C18/hermite_bounds.cpp', entry=_ent,
      tus=['src/Anamorphosis/AnamHermite.cpp', 'src/Basic/Interval.cpp', 'src/Basic/Utilities.cpp'],
      symex_opts=_mono_opts,
      # branch_timeout_ms: the branch into the bisection loop is infeasible for the stated inputs; a feasibility query that times out
      # (busy machine) would send the engine into 10^6 iterations, so it gets time, and max_steps turns such a run into an error
      symex={'libm_exact': {'sinh': _sinh_native}, 'branch_timeout_ms': 30000, 'max_steps': 300000},
      bounds={'quick': 'arbitrary real bounds ay.min < py.min <= py.max < ay.max (|.| <= 1e6), pz = H(py) at both ends, az.min < pz.min, pz.max < az.max, gaps absolute/practical >= 2^-20; all 2^8 inclusion flags; H an arbitrary strictly increasing function; free real query points'},
      timeout_ms={'quick': 100000, 'thorough': 600000}, validate={'quick': 30, 'thorough': 60},
      what='AnamHermite::' + _what + ' (with Interval::isOutsideBelow/isOutsideAbove, isEqual, FFFF)',
      out='the bisection inverse inside the practical interval (up to 10^6 iterations) and therefore monotonicity of rawToTransformValue across the practical bounds; fitting of the bounds (_defineBounds); absent (TEST) bounds; practical and absolute bounds closer than the isEqual tolerance 1e-10; rounding of the linear interpolations',
      assumptions=['real-arithmetic reading', 'pz.min = H(py.min), pz.max = H(py.max): the practical bounds are points of the expansion (what _defineBounds stores)',
                   'H strictly increasing (uninterpreted otherwise)', 'bounds ordered as stated'],
      stubs=['hermiteCondExpElement(y, 0, psi) -> H(y) = sinh(y): uninterpreted + strict monotonicity on the terms present (symex libm_axioms); libm sinh in native builds',
             'AnamHermite object in raw storage with the class vtable: _flagBound, _rCoef = 1, _psiHn (2 coefficients, unused), the four Interval members (_vmin, _vmax, inclusion flags) initialised by the harness'])
