from kernels import K

# ---------------------------------------------------------------- C18
for _n, _tiers in ((1, ('quick', 'thorough')), (2, ('quick', 'thorough')), (3, ('quick', 'thorough')), (5, ('quick', 'thorough')),
                   (7, ('quick', 'thorough')), (8, ('thorough',))):  # nbpoly 10 (degrees 8, 9: sqrt(7), sqrt(8) join the tower): no verdict in 1200 s
    K('C18.a.%d' % _n, property='C18', engine='symex', harness='C18/hermite.cpp', entry='k_hermite',
      tus=['src/Polynomials/Hermite.cpp'], defines={'all': {'VF_N': _n}}, tiers=_tiers,
      bounds={'quick': 'nbpoly = %d (degrees 0..%d); y and r free reals (a continuum)' % (_n, _n - 1)},
      timeout_ms={'quick': 40000, 'thorough': 300000}, validate={'quick': 25, 'thorough': 50}, symex={'sqrt_memo': True},
      what='hermitePolynomials(y, r, nbpoly): poly[k] == (-1)^k He_k(y)/sqrt(k!) * r^k against the textbook coefficient table of He_k',
      out='orthonormality of He_k/sqrt(k!) itself (textbook); rounding of the recurrence; nbpoly above the bound; hermiteCondExp*/hermiteCoefMetal and the other users',
      assumptions=['real-arithmetic reading; sqrt(k), sqrt(k!) are exact positive algebraic numbers',
                   'sign convention (-1)^k (Rodrigues form g^(k)/g of the geostatistical literature); orthonormality does not depend on it'])

for _nk in (2, 3, 4):
    for _part, _ents, _what in (
            ('inv', ['k_roundtrip_z', 'k_roundtrip_y'], 'mutual inverses on the table range (both orders), images inside the table range'),
            ('mono', ['k_monotone_clamp', 'k_monotone_clamp_inv'], 'both non-decreasing (two free query points), clamped to the end knots outside the range, knot maps to knot')):
        K('C18.c.%d.%s' % (_nk, _part), property='C18', engine='symex', harness='C18/empirical.cpp', entries=_ents,
          tus=['src/Anamorphosis/AnamEmpirical.cpp'], defines={'all': {'VF_NK': _nk}},
          bounds={'quick': 'table with exactly %d knots, Z and Y strictly increasing free reals; query points free reals' % _nk},
          # portfolio of two z3 strategies per case: one of them answers within ~2 s, the other often runs into the timeout
          timeout_ms={'quick': 30000, 'thorough': 600000}, validate={'quick': 25, 'thorough': 50},
          what='AnamEmpirical::setDisc, rawToTransformValue, transformToRawValue: ' + _what,
          out='fitting of the table (dilution, normal score); tables with ties (not strictly increasing); more knots than the bound; rounding of the interpolation',
          assumptions=['real-arithmetic reading of the linear interpolation', 'Z and Y strictly increasing'],
          stubs=['AnamEmpirical object in raw storage: only _nDisc/_ZDisc/_YDisc initialised (constructors not run)'])


# ---- C18.b AnamHermite bound / extrapolation branches, expansion = strictly increasing uninterpreted function
def _mono_opts_at(anchors=()):
    """sinh stands for the Hermite expansion: an uninterpreted function with strict monotonicity instantiated on
    every pair of application terms present (nothing else is assumed about it).  Applications on concrete arguments
    are evaluated by libm_exact (the native value) and never reach the solver; 'anchors' lists the concrete arguments the
    harness uses (the fixed practical bounds), so that symbolic applications are ordered against those values too."""
    def opts(symex, z3):
        import math
        from fractions import Fraction
        apps = [(z3.RealVal(Fraction(c)), z3.RealVal(Fraction(math.sinh(c)))) for c in anchors]

        def axioms(f, args, app):
            x = args[0]
            ax = []
            for y, fy in apps:
                ax += [z3.Implies(x < y, app < fy), z3.Implies(x > y, app > fy), z3.Implies(x == y, app == fy)]
            apps.append((x, app))
            return ax
        return {'libm_axioms': {'sinh': axioms}}
    return opts


def _sinh_native(x):
    import math
    from fractions import Fraction
    try:
        return Fraction(math.sinh(float(x)))   # concrete arguments (validation runs): the value the native libm returns
    except OverflowError:
        return None


for _ent, _id, _what in (
        ('k_raw', 'raw', 'transformToRawValue: inside [az.min, az.max]; non-decreasing over all y (two free points, across every zone boundary); the expansion itself when _flagBound is off'),
        ('k_gauss', 'gauss', 'rawToTransformValue outside the practical interval (constant and linear branches): inside [ay.min, ay.max]; non-decreasing (two free points)'),
        ('k_rt_z', 'rtz', 'z outside the practical interval: transformToRaw(rawToTransform(z)) == z clamped to the absolute interval'),
        ('k_lin_y', 'liny', 'y outside the practical interval: transformToRaw(y) inside the absolute interval; rawToTransform(transformToRaw(y)) == y clamped to the absolute interval')):
    for _mx, _tiers in ((1, ('quick', 'thorough')),):   # _mx = 0 (VF_MAXINC off: the four "max included" flags false) was only needed on a busy machine
        K('C18.b.' + _id, property='C18', engine='symex', harness='C18/hermite_bounds.cpp', entry=_ent,
          tus=['src/Anamorphosis/AnamHermite.cpp', 'src/Basic/Interval.cpp', 'src/Basic/Utilities.cpp'],
          defines={'all': dict({'VF_MAXINC': 1} if _mx else {}, **({} if _id == 'raw' else {'VF_YFIX': 1, 'VF_AYMIN': '-4.', 'VF_PYMIN': '-2.5', 'VF_PYMAX': '3.', 'VF_AYMAX': '4.5'}))}, tiers=_tiers,
          symex_opts=_mono_opts_at(() if _id == 'raw' else (-2.5, 3.)),
          # branch_timeout_ms: the branch into the bisection loop is infeasible for the stated inputs; a feasibility query that times out
          # (busy machine) would send the engine into 10^6 iterations, so it gets time, and max_steps turns such a run into an error
          symex={'libm_exact': {'sinh': _sinh_native}, 'branch_timeout_ms': 30000, 'max_steps': 300000},
          bounds={'quick': ('arbitrary real bounds ay.min < py.min <= py.max < ay.max (|.| <= 1e6)' if _id == 'raw' else 'Gaussian-side bounds fixed: ay = [-4, 4.5], py = [-2.5, 3]') + ', pz = H(py) at both ends, az.min < pz.min, pz.max < az.max, gaps absolute/practical >= 2^-20; the four "min included" flags arbitrary, "max included" %s; H an arbitrary strictly increasing function; free real query points' % ('arbitrary too' if _mx else 'false (what the Interval constructor / init() give)')},
          timeout_ms={'quick': 100000, 'thorough': 600000}, validate={'quick': 120, 'thorough': 200},   # most random streams fall inside the practical interval and are rejected by the assume
          what='AnamHermite::' + _what + ' (with Interval::isOutsideBelow/isOutsideAbove, isEqual, FFFF)',
          out='the bisection inverse inside the practical interval (up to 10^6 iterations) and therefore monotonicity of rawToTransformValue across the practical bounds; fitting of the bounds (_defineBounds); absent (TEST) bounds; practical and absolute bounds closer than the isEqual tolerance 1e-10; rounding of the linear interpolations',
          assumptions=['real-arithmetic reading', 'pz.min = H(py.min), pz.max = H(py.max): the practical bounds are points of the expansion (what _defineBounds stores)',
                       'H strictly increasing (uninterpreted otherwise)', 'bounds ordered as stated'],
          stubs=['hermiteCondExpElement(y, 0, psi) -> H(y) = sinh(y): uninterpreted + strict monotonicity on the terms present (symex libm_axioms); libm sinh in native builds',
                 'AnamHermite object in raw storage with the class vtable: _flagBound, _rCoef = 1, _psiHn (2 coefficients, unused), the four Interval members (_vmin, _vmax, inclusion flags) initialised by the harness'])

# ---- C18.d PCA variables <-> factors
_PCATUS = ['src/Stats/PCA.cpp', 'src/Matrix/MatrixSquareGeneral.cpp', 'src/Matrix/AMatrixSquare.cpp', 'src/Matrix/MatrixRectangular.cpp',
           'src/Matrix/AMatrixDense.cpp', 'src/Matrix/AMatrix.cpp', 'src/Basic/VectorHelper.cpp', 'src/Basic/AStringable.cpp', 'src/Basic/Utilities.cpp']
K('C18.d.rt', property='C18', engine='symex', harness='C18/pca.cpp', entry='k_roundtrip', tus=_PCATUS,
  defines={'all': {'VF_NVAR': 2, 'VF_NECH': 2}},
  bounds={'quick': 'nvar = 2, 2 samples each active or not (arbitrary isoFlag); Z2F an arbitrary invertible real 2x2 matrix, F2Z its inverse (Z2F.F2Z = F2Z.Z2F = I); arbitrary real data, means, prior content of the target cells; sigma > 0'},
  timeout_ms={'quick': 100000, 'thorough': 600000}, validate={'quick': 30, 'thorough': 60},
  what='PCA::_pcaZ2F then PCA::_pcaF2Z (with _loadData, _center, _uncenter, AMatrix::prodMatVec(transpose=true) on really constructed MatrixSquareGeneral): factors f_j = sum_i Z2F(i,j)(z_i - mean_i); F2Z(Z2F(z)) == z incl. centring for every active sample; inactive samples not written; Db cells addressed in range',
  out='the eigen step and _pcaFunctions/_mafFunctions (that the stored pair is an inverse pair); unit variance / decorrelation of the factors; dbZ2F/dbF2Z column management (C19); nvar > 2; rounding of the products',
  assumptions=['real-arithmetic reading', 'F2Z is the inverse of Z2F (2x2: stated through the adjugate, det != 0)', 'sigma > 0 (with sigma <= 0 _uncenter skips the variable altogether while _center still subtracts the mean)'],
  stubs=['Db::getLocNumber(const ELoc&) const -> 2; Db::getSampleNumber(bool) const -> 2; Db::getZVariable(iech, item) const -> current source table; Db::setArray(iech, iuid, v) -> current target table at column iuid - iptr, writes counted; out-of-range accesses counted and asserted absent',
         'PCA object in raw storage: only _Z2F, _F2Z constructed (MatrixSquareGeneral(2)) and filled through setValue', 'messerr -> empty'])
K('C18.d.center', property='C18', engine='symex', harness='C18/pca.cpp', entry='k_center', tus=_PCATUS,
  defines={'all': {'VF_NVAR': 2, 'VF_NECH': 2}},
  bounds={'quick': 'nvar = 2; arbitrary real data and means, sigma > 0, both flags arbitrary'},
  timeout_ms={'quick': 60000, 'thorough': 600000}, validate={'quick': 30, 'thorough': 60},
  what='PCA::_center / PCA::_uncenter: _center == (v - mean)/sigma according to flag_center / flag_scale; _uncenter(_center(v)) == v',
  out='sigma <= 0 (constant variable): _uncenter skips the variable altogether, _center still subtracts the mean; rounding',
  assumptions=['real-arithmetic reading', 'sigma > 0'], stubs=['messerr -> empty'])

# ---- C18.e normal score, rank part
for _n, _w, _tiers in ((3, 0, ('quick', 'thorough')), (3, 1, ('quick', 'thorough')), (4, 0, ('quick', 'thorough')), (4, 1, ('thorough',)),
                       (5, 0, ('thorough',))):
    K('C18.e.%d%s' % (_n, '.w' if _w else ''), property='C18', engine='symex', harness='C18/nscore.cpp', entry='k_weighted' if _w else 'k_plain',
      tus=['src/Basic/VectorHelper.cpp', 'src/Basic/Utilities.cpp'], defines={'all': {'VF_N': _n}}, tiers=_tiers,
      bounds={'quick': '%d values, each defined or TEST (at least one defined), the defined ones pairwise distinct integer-valued |v| <= 1000; %s' % (_n, 'arbitrary positive integer-valued weights <= 1000' if _w else 'no weights')},
      timeout_ms={'quick': 100000, 'thorough': 600000}, validate={'quick': 30, 'thorough': 60},
      what='VH::normalScore (with VH::orderRanks, std::stable_sort executed): undefined entries stay TEST; defined entries get the frequency cumulated weight / (W (n+1)/n) in (0,1); output order-isomorphic to the input on the defined entries',
      out='the Gaussian inverse c.d.f. itself (law_invcdf_gaussian: any strictly increasing function keeps the order); ties (equal values get different frequencies in stable-sort order, as coded); zero weights; more values than the bound; rounding of the frequency',
      assumptions=['comparison-only ranking: exact for finite doubles; the frequency is compared in the real-arithmetic reading', 'defined values pairwise distinct', 'weights > 0'],
      stubs=['law_invcdf_gaussian(p) -> p (identity: strictly increasing; outputs are the frequencies)',
             'throw_exp -> throws an int; operator new(size_t, nothrow) -> nullptr (std::stable_sort runs its buffer-less path, as in C11.e); messerr -> empty'])


# ---- C18.g (builder3): a PCA recomputed on the same object gives what a fresh object gives (accumulators reset)
_PCARTUS = ['src/Stats/PCA.cpp', 'src/Matrix/MatrixSquareSymmetric.cpp', 'src/Matrix/MatrixSquareGeneral.cpp', 'src/Matrix/AMatrixSquare.cpp', 'src/Matrix/MatrixRectangular.cpp',
            'src/Matrix/AMatrixDense.cpp', 'src/Matrix/AMatrix.cpp', 'src/Basic/VectorHelper.cpp', 'src/Basic/AStringable.cpp', 'src/Basic/Utilities.cpp']
for _ne, _tiers in ((3, ('quick', 'thorough')), (4, ('thorough',))):
    K('C18.g.%d' % _ne, property='C18', engine='symex', harness='C18/pcarecompute.cpp', entries=['k_recompute_all_all', 'k_recompute_all_less', 'k_recompute_less_all', 'k_recompute_less_less'], tus=_PCARTUS,
      defines={'all': {'VF_NVAR': 2, 'VF_NECH': _ne}}, tiers=_tiers,
      bounds={'quick': 'nvar = 2; two successive computations on one PCA object, each on its own data set of %d samples with arbitrary real values (a continuum); four fixed patterns of left-out samples '
                       '(none / none, none / sample 0 masked, sample 1 not isotopic / none, sample 0 masked / sample 2 masked)' % _ne},
      timeout_ms={'quick': 120000, 'thorough': 600000}, validate={'quick': 40, 'thorough': 80}, validate_doubles='int',
      what='PCA::PCA, PCA::pca_compute twice on the same object (init / resize, _getVectorIsotopic, _calculateNormalization, _covariance0, _loadData, _center, MatrixSquareSymmetric storage: fill, '
           'setValue, getValue): in both runs the matrix handed to the eigen step is the (n-1)-normalised covariance matrix of that run\'s isotopic samples (both triangles), the means and the '
           'standard deviations are those of that run\'s samples: nothing accumulated by the first run survives in the second',
      out='the eigen decomposition and the transfer functions built from it (C18.d takes them as given); maf_compute (same _covariance0, then a second accumulation over pairs); '
          'a change of the number of variables between the runs (resize then clears); runs with fewer than 2 isotopic samples (division by n-1 = 0); rounding',
      assumptions=['real-arithmetic reading (native validation / replay compares up to 1e-9 relative)', 'at least two active isotopic samples in each run (true of the four patterns)',
                   'standard deviation checked through its square, within 1e-9 relative in every build'],
      stubs=['MatrixSquareSymmetric::computeEigen(bool) -> records the matrix it is called on and returns 1 (failure), which makes pca_compute return before _pcaFunctions',
             'Db::getLocNumber(const ELoc&) const -> 2; Db::getSampleNumber(bool) const -> number of samples; Db::isActive / Db::isIsotopic / Db::getZVariable -> symbolic tables of the current run; '
             'out-of-range accesses counted and asserted absent; the Db itself is an untouched raw buffer', 'messerr / message / mestitle -> empty'])
