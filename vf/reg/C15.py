from kernels import K

# ---------------------------------------------------------------- C15
# ---- C15.e Horner evaluation of ClassicalPolynomial
for _deg in (0, 1, 2, 3, 4, 5):
    K('C15.e.%d' % _deg, property='C15', engine='symex', harness='C15/poly.cpp', entry='k_poly_eval',
      tus=['src/Polynomials/ClassicalPolynomial.cpp'], defines={'all': {'VF_DEG': _deg}},
      bounds={'quick': 'degree %d, arbitrary real coefficients and argument (a continuum)' % _deg},
      timeout_ms={'quick': 60000, 'thorough': 300000}, validate={'quick': 30, 'thorough': 60}, validate_doubles='int',
      what='ClassicalPolynomial::eval (Horner scheme) == sum_k c_k x^k as a polynomial identity',
      out='rounding of the 2*degree floating operations; the matrix versions evalOp/addEvalOp (MatrixSparse / ALinearOp bound)',
      assumptions=['real-arithmetic reading; native validation/replay compares up to 1e-12 relative to sum |c_k||x|^k'],
      stubs=['ClassicalPolynomial object is raw storage (no constructor, no vtable): _coeffs is constructed for real as VectorDouble(degree+1)'])

# ---- C15.a barycentric weights of a point in a simplex
_WTUS = ['src/Mesh/AMesh.cpp', 'src/Matrix/AMatrixSquare.cpp', 'src/Matrix/MatrixSquareGeneral.cpp', 'src/Matrix/AMatrixDense.cpp',
         'src/Matrix/AMatrix.cpp', 'src/Matrix/MatrixRectangular.cpp', 'src/Basic/AStringable.cpp', 'src/Basic/ASerializable.cpp', 'src/Basic/VectorHelper.cpp']
for _nd, _g in ((1, 1048576), (2, 64)):
    K('C15.a.%d' % _nd, property='C15', engine='symex', harness='C15/weights.cpp', entries=['k_weights_inside', 'k_weights_outside'],
      tus=_WTUS, defines={'all': {'VF_NDIM': _nd, 'VF_G': _g}},
      bounds={'quick': '%s, non-degenerate; inside case: arbitrary real vertex and target coordinates (a continuum), any tolerance eps >= 0; outside case: integer grid |v| <= %d, tolerance 0' % (
          'segment (1-D)' if _nd == 1 else 'triangle (2-D)', _g)},
      timeout_ms={'quick': 60000, 'thorough': 900000}, validate={'quick': 300, 'thorough': 600}, validate_doubles='int',
      what='AMesh::_weightsInMesh + AMesh::_getMeshUnit + AMatrixSquare::determinant (closed forms) on really constructed MatrixSquareGeneral: '
           'strictly inside => true, weights >= 0, sum 1, sum w_i*vertex_i == target; strictly outside => false',
      out='points on the boundary; the acceptance band of width eps around the simplex; rounding of the divisions (real-arithmetic reading); 3-D',
      assumptions=['real-arithmetic reading; native validation/replay compares sums up to 1e-9'],
      stubs=['VfMesh: harness subclass of AMesh defining its pure virtual functions (getNApices, getNMeshes, getApex, getCoor, getApexCoor, getMeshSize, resetProjMatrix) with trivial bodies; none is called by the kernel'])

# ---- C15.b turbo-mesh indexing
_TTUS = ['src/Mesh/MeshETurbo.cpp', 'src/Mesh/Delaunay.cpp', 'src/Basic/Grid.cpp', 'src/Basic/Indirection.cpp', 'src/Basic/Utilities.cpp', 'src/Basic/AStringable.cpp']
for _nd, _nxq, _nxt, _tiers in ((1, 4, 8, ('quick', 'thorough')), (2, 3, 4, ('quick', 'thorough')), (3, 3, 4, ('quick', 'thorough'))):
    K('C15.b.%d' % _nd, property='C15', engine='symex', harness='C15/turbo.cpp',
      entries=['k_turbo_apex'] + (['k_turbo_cell'] if _nd <= 2 else []), tus=_TTUS, tiers=_tiers,
      defines={'all': dict({'VF_ND': _nd}, **({'VF_NXFIXED': 1} if _nd == 3 else {})), 'quick': {'VF_NX': _nxq}, 'thorough': {'VF_NX': _nxt}},
      bounds={'quick': ('%d-D grid, nx[d] = %d in every direction, every mesh rank, no mask' if _nd == 3 else
                        '%d-D grid, every nx[d] in [2, %d] (symbolic), every mesh rank, with and without polarisation, no mask; tiling: every real point of the open unit cell') % (_nd, _nxq),
              'thorough': ('%d-D grid, nx[d] = %d in every direction' if _nd == 3 else '%d-D grid, every nx[d] in [2, %d]') % (_nd, _nxt)},
      timeout_ms={'quick': 120000, 'thorough': 900000}, validate={'quick': 100, 'thorough': 200}, validate_doubles='dyadic',
      what='MeshETurbo::_getGridFromMesh, getApex, _getPolarized, _setNumberElementPerCell, getNMeshes, getNApices, MSS, Grid::rankToIndice/indiceToRank, Indirection::getRToA/getAToR: '
           'mesh rank <-> (cell, case) one-to-one; every apex of a mesh is a corner of its own cell; the simplices of the MSS table tile the unit cell (1-D, 2-D)',
      out='masked grids / masked meshes (non-identity Indirection); tiling in 3-D; rotation; coordinates',
      assumptions=['no selection: both Indirection members are the identity (empty arrays)'],
      stubs=['MeshETurbo object is raw storage: AMesh::_nDim, _grid._nDim, _grid._nx, _nPerCell (by the real _setNumberElementPerCell), _isPolarized, '
             '_meshIndirect/_gridIndirect (_defined=false, _mode=0, empty _vecRToA/_vecAToR) initialised by the harness',
             'messerr(const char*, ...), mesArg(const char*, int, int): empty (the real ones format a message and print it)'])


CLAIMS = {'C15': 'Decided: the projection clause only: barycentric weights of a point in a segment/triangle (AMesh::_weightsInMesh with the closed-form determinants), '
                 'turbo-mesh indexing (mesh rank <-> (cell, case), apices are cell corners, the MSS simplices tile the cell) and the Horner evaluation of ClassicalPolynomial. '
                 'Not claimed: precision operators, symmetry/positive definiteness, Cholesky vs conjugate gradient, solver residuals.'}
