from kernels import K

# ---------------------------------------------------------------- C15
# ---- C15.e Horner evaluation of ClassicalPolynomial
for _deg in (0, 1, 2, 3, 4, 5):
    K('C15.e.%d' % _deg, property='C15', engine='symex', harness='C15/poly.cpp', entry='k_poly_eval',
      tus=['src/Polynomials/ClassicalPolynomial.cpp'], defines={'all': {'VF_DEG': _deg}},
      bounds={'quick': 'degree %d, arbitrary real coefficients and argument (a continuum)' % _deg},
      timeout_ms={'quick': 60000, 'thorough': 300000}, validate={'quick': 30, 'thorough': 60}, validate_doubles='int',
      what='ClassicalPolynomial::eval (Horner scheme) == sum_k c_k x^k as a polynomial identity',
      out='rounding of the 2*degree floating operations; the matrix versions evalOp/addEvalOp (MatrixSparse / ALinearOp bound)',
      assumptions=['real-arithmetic reading; native validation/replay compares up to 1e-12 relative to sum |c_k||x|^k'],
      stubs=['ClassicalPolynomial object is raw storage (no constructor, no vtable): _coeffs is constructed for real as VectorDouble(degree+1)'])

# ---- C15.a barycentric weights of a point in a simplex
_WTUS = ['src/Mesh/AMesh.cpp', 'src/Matrix/AMatrixSquare.cpp', 'src/Matrix/MatrixSquareGeneral.cpp', 'src/Matrix/AMatrixDense.cpp',
         'src/Matrix/AMatrix.cpp', 'src/Matrix/MatrixRectangular.cpp', 'src/Basic/AStringable.cpp', 'src/Basic/ASerializable.cpp', 'src/Basic/VectorHelper.cpp']
for _nd, _g in ((1, 1048576), (2, 64), (3, 8)):
    K('C15.a.%d' % _nd, property='C15', engine='symex', harness='C15/weights.cpp', entries=['k_weights_inside'] + (['k_weights_outside'] if _nd <= 2 else []),
      tus=_WTUS, defines={'all': dict({'VF_NDIM': _nd, 'VF_G': _g}, **({'VF_NO_AFFINE': 1} if _nd == 3 else {}))},
      bounds={'quick': '%s, non-degenerate; inside case: arbitrary real vertex and target coordinates (a continuum), any tolerance eps >= 0; outside case: integer grid |v| <= %d, tolerance 0' % (
          {1: 'segment (1-D)', 2: 'triangle (2-D)', 3: 'tetrahedron (3-D)'}[_nd], _g)},
      timeout_ms={'quick': 60000, 'thorough': 900000}, validate={'quick': 300, 'thorough': 600}, validate_doubles='int',
      what='AMesh::_weightsInMesh + AMesh::_getMeshUnit + AMatrixSquare::determinant (closed forms) on really constructed MatrixSquareGeneral: '
           'strictly inside => true, weights >= 0, sum 1, sum w_i*vertex_i == target; strictly outside => false',
      out='points on the boundary; the acceptance band of width eps around the simplex; rounding of the divisions (real-arithmetic reading)' + ('; 3-D: sum w_i*vertex_i == target is NOT asserted (degree-4 identity in 15 reals: z3 returned unknown after 120 s per coordinate), and neither is strictly outside => false (unknown on the integer grid |v| <= 8)' if _nd == 3 else ''),
      assumptions=['real-arithmetic reading; native validation/replay compares sums up to 1e-9'],
      stubs=['VfMesh: harness subclass of AMesh defining its pure virtual functions (getNApices, getNMeshes, getApex, getCoor, getApexCoor, getMeshSize, resetProjMatrix) with trivial bodies; none is called by the kernel'])

# ---- C15.b turbo-mesh indexing
_TTUS = ['src/Mesh/MeshETurbo.cpp', 'src/Mesh/Delaunay.cpp', 'src/Basic/Grid.cpp', 'src/Basic/Indirection.cpp', 'src/Basic/Utilities.cpp', 'src/Basic/AStringable.cpp']
for _nd, _nxq, _nxt, _tiers in ((1, 4, 8, ('quick', 'thorough')), (2, 3, 4, ('quick', 'thorough')), (3, 3, 4, ('quick', 'thorough'))):
    K('C15.b.%d' % _nd, property='C15', engine='symex', harness='C15/turbo.cpp',
      entries=['k_turbo_apex', 'k_turbo_cell'], tus=_TTUS, tiers=_tiers,
      defines={'all': dict({'VF_ND': _nd}, **({'VF_NXFIXED': 1} if _nd == 3 else {})), 'quick': {'VF_NX': _nxq}, 'thorough': {'VF_NX': _nxt}},
      bounds={'quick': ('%d-D grid, nx[d] = %d in every direction, every mesh rank, no mask; tiling: every real point of the open unit cube (six tetrahedra)' if _nd == 3 else
                        '%d-D grid, every nx[d] in [2, %d] (symbolic), every mesh rank, with and without polarisation, no mask; tiling: every real point of the open unit cell') % (_nd, _nxq),
              'thorough': ('%d-D grid, nx[d] = %d in every direction' if _nd == 3 else '%d-D grid, every nx[d] in [2, %d]') % (_nd, _nxt)},
      timeout_ms={'quick': 120000, 'thorough': 900000}, validate={'quick': 100, 'thorough': 200}, validate_doubles='dyadic',
      what='MeshETurbo::_getGridFromMesh, getApex, _getPolarized, _setNumberElementPerCell, getNMeshes, getNApices, MSS, Grid::rankToIndice/indiceToRank, Indirection::getRToA/getAToR: '
           'mesh rank <-> (cell, case) one-to-one; every apex of a mesh is a corner of its own cell; the simplices of the MSS table tile the unit cell (1-D, 2-D, 3-D)',
      out='masked grids / masked meshes (non-identity Indirection); rotation; coordinates',
      assumptions=['no selection: both Indirection members are the identity (empty arrays)'],
      stubs=['MeshETurbo object is raw storage: AMesh::_nDim, _grid._nDim, _grid._nx, _nPerCell (by the real _setNumberElementPerCell), _isPolarized, '
             '_meshIndirect/_gridIndirect (_defined=false, _mode=0, empty _vecRToA/_vecAToR) initialised by the harness',
             'messerr(const char*, ...), mesArg(const char*, int, int): empty (the real ones format a message and print it)'])


CLAIMS = {'C15': 'Decided: the projection clause only: barycentric weights of a point in a segment/triangle (AMesh::_weightsInMesh with the closed-form determinants), '
                 'turbo-mesh indexing (mesh rank <-> (cell, case), apices are cell corners, the MSS simplices tile the cell) and the Horner evaluation of ClassicalPolynomial. '
                 'Not claimed: precision operators, symmetry/positive definiteness, Cholesky vs conjugate gradient, solver residuals.'}

# ---- C15.c acceptance / clipping logic of MeshETurbo::_addWeights (linear solve overridden)
_AWTUS = ['src/Mesh/MeshETurbo.cpp', 'src/Mesh/Delaunay.cpp', 'src/Basic/Grid.cpp', 'src/Basic/Indirection.cpp', 'src/Basic/Utilities.cpp', 'src/Basic/AStringable.cpp',
          'src/Matrix/AMatrix.cpp', 'src/Matrix/AMatrixDense.cpp', 'src/Matrix/AMatrixSquare.cpp', 'src/Matrix/MatrixSquareGeneral.cpp', 'src/Matrix/MatrixRectangular.cpp']
for _nd, _nxq, _nxt in ((1, 3, 5), (2, 3, 4), (3, 2, 3)):
    K('C15.c.%d' % _nd, property='C15', engine='symex', harness='C15/addweights.cpp', entries=['k_addweights', 'k_addweights_masked'], tus=_AWTUS,
      defines={'all': {'VF_ND': _nd}, 'quick': {'VF_NX': _nxq}, 'thorough': {'VF_NX': _nxt}},
      bounds={'quick': '%d-D grid with %d nodes per direction, every mask pattern of the grid nodes (and no mask), with and without polarisation; every simplex case, every start node from one step '
                       'below to one step above the grid; solved weights = arbitrary reals, inversion succeeds or fails' % (_nd, _nxq),
              'thorough': '%d-D grid with %d nodes per direction' % (_nd, _nxt)},
      timeout_ms={'quick': 120000, 'thorough': 900000}, validate={'quick': 60, 'thorough': 120}, validate_doubles='dyadic',
      what='MeshETurbo::_addWeights (+ _getPolarized, MSS, Grid::indiceToRank, Indirection::getAToR/_getArrayAToR, getNApices): accepted => every lambda in [0,1] and within EPSILON6 of the solved '
           'weight, every apex index is the relative rank of the in-grid, active corner given by the MSS table and lies in [0, getNApices()); rejected => a corner outside the grid, a masked corner, '
           'a singular system or a weight outside [-EPSILON6, 1+EPSILON6]',
      out='the linear solve itself (MatrixSquareGeneral inversion and product: C15.a decides the closed-form weights of AMesh::_weightsInMesh); corner coordinates / rotation; Indirection by map (_mode 1); '
          'that the clipped weights still sum to one (they may be off by up to (ndim+1)*EPSILON6)',
      assumptions=['MeshETurbo is raw storage with the real virtual table: _nDim, _grid._nDim/_nx, _nPerCell (real _setNumberElementPerCell), _isPolarized, _gridIndirect initialised by the harness',
                   'grid mask representation invariant (Indirection::buildFromSel): relative rank of an active node = number of active nodes before it, -1 for a masked node'],
      stubs=['AMatrix::invert: returns 0 or 1 arbitrarily', 'AMatrix::prodMatVecInPlace(constvect, vect, bool): writes an arbitrary real vector (the solved weights)',
             'Grid::indiceToCoordinate: 0 (corner coordinates only feed the overridden system)', 'messerr / message / mesArg: empty'])

# ---- C15.d row assembly of the projection matrix (weight routine overridden, NF_Triplet::add recorded)
_PRTUS = ['src/Mesh/MeshETurbo.cpp', 'src/Mesh/MeshEStandard.cpp', 'src/Mesh/AMesh.cpp', 'src/Matrix/NF_Triplet.cpp', 'src/Basic/Grid.cpp', 'src/Basic/Indirection.cpp',
          'src/Basic/Utilities.cpp', 'src/Basic/AStringable.cpp', 'src/Basic/ASerializable.cpp']
_PR_STUBS = ['NF_Triplet::add(irow, icol, value): recorded (row/column maxima updated as the real one does, no Eigen storage)',
             'MatrixSparse::resetFromTriplet: records the shape (max row + 1, max column + 1) that NF_Triplet::buildEigenFromTriplet gives the matrix',
             'Db::getSampleNumber: VF_NS; Db::isActive: symbolic table; Db::getFromLocator(ELoc::Z, rank, 0): defined value or TEST per symbolic table; '
             'Db::getCoordinate (virtual slot of the raw Db) / Db::getSampleCoordinates: 0 (coordinates only feed the overridden routines)',
             'AMesh::isCompatibleDb: 0 (compatible)', 'messerr / message / mesArg / mestitle: empty']
_PR_ASSUME = ['mesh objects and the Db are raw storage; the mesh carries the real virtual table of its class; ProjMatrix is an untouched raw buffer (resetFromTriplet is overridden)',
              'the weight routine is a black box: call c accepts or refuses arbitrarily, returns arbitrary apex indices in range and arbitrary real weights, and overwrites its output arguments even when it refuses']
for _ns, _tiers in ((3, ('quick', 'thorough')), (4, ('thorough',))):
    K('C15.d.turbo.%d' % _ns, property='C15', engine='symex', harness='C15/projrows.cpp', entry='k_proj_turbo', tus=_PRTUS, tiers=_tiers,
      defines={'all': {'VF_NS': _ns, 'VF_ND': 2}},
      bounds={'quick': 'data base of %d samples, every mask / undefined-value pattern, with and without the rankZ test; 2-D turbo mesh on a 3x3 grid; each sample inside or outside the grid, start node arbitrary; '
                       'every accept / refuse pattern of the weight routine over its (at most %d) calls' % (_ns, _ns * 4)},
      timeout_ms={'quick': 120000, 'thorough': 900000}, validate={'quick': 40, 'thorough': 80}, validate_doubles='int',
      what='MeshETurbo::resetProjMatrix + _addElementToTriplet (+ NF_Triplet::force): the k-th valid sample, when a simplex accepts it, adds exactly ncorner entries (k, apex returned, weight returned) from the '
           'accepting call; a sample no simplex accepts, or outside the grid, adds nothing (empty row k, never a partial one); only a zero dimension-forcing entry besides; the matrix has one row per valid '
           'sample and one column per apex; the second attempt one node down happens only for a start node on the last grid line',
      out='the weights and apex indices themselves (C15.a, C15.c); the sparse matrix construction from the triplet (Eigen); verbose printing',
      assumptions=_PR_ASSUME,
      stubs=_PR_STUBS + ['MeshETurbo::_addWeights: black box as described', 'Grid::coordinateToIndicesInPlace: returns the symbolic start node of the sample and its symbolic inside / outside verdict'])
    K('C15.d.std.%d' % _ns, property='C15', engine='symex', harness='C15/projrows.cpp', entry='k_proj_standard', tus=_PRTUS, tiers=_tiers,
      defines={'all': {'VF_NS': _ns, 'VF_ND': 2}},
      bounds={'quick': 'data base of %d samples, every mask / undefined-value pattern, with and without the rankZ test; standard mesh of 3 triangles on 5 apices with an arbitrary apex table; '
                       'every accept / refuse pattern of the weight routine over its (at most %d) calls' % (_ns, _ns * 3)},
      timeout_ms={'quick': 120000, 'thorough': 900000}, validate={'quick': 40, 'thorough': 80}, validate_doubles='int',
      what='MeshEStandard::resetProjMatrix (+ NF_Triplet::force): the k-th valid sample, when a mesh accepts it, adds exactly ncorner entries (k, getApex(mesh, i), weight i) from the accepting call; a sample no '
           'mesh accepts adds nothing (empty row k, never a partial one); every mesh is tried at most once per sample; the matrix has one row per valid sample and one column per apex',
      out='as C15.d.turbo; the container pre-test (_coorInMeshContainer accepts everything here: it is only a filter in front of the weight routine)',
      assumptions=_PR_ASSUME,
      stubs=_PR_STUBS + ['MeshEStandard::_coorInMesh: black box as described; _coorInMeshContainer: true; _defineContainers / _defineUnits: dummy vectors',
                         'MeshEStandard::getApex: symbolic apex table; getNMeshes: 3; getNApices: 5'])

CLAIMS['C15'] += (' Also decided: the acceptance / clipping logic of MeshETurbo::_addWeights around an overridden linear solve (C15.c) and the row assembly of the projection matrix in '
                  'MeshETurbo::resetProjMatrix / MeshEStandard::resetProjMatrix around an overridden weight routine (C15.d: one row per valid sample, complete or empty, never partial).')

# ---- C15.d2 (builder3): the REAL path of MeshETurbo::resetProjMatrix for one point of the closed grid domain (upper borders, top corner)
_BDTUS = ['src/Mesh/MeshETurbo.cpp', 'src/Mesh/AMesh.cpp', 'src/Mesh/Delaunay.cpp', 'src/Matrix/NF_Triplet.cpp', 'src/Basic/Grid.cpp', 'src/Basic/Rotation.cpp',
          'src/Basic/Indirection.cpp', 'src/Basic/Utilities.cpp', 'src/Basic/AStringable.cpp', 'src/Basic/ASerializable.cpp', 'src/Basic/VectorHelper.cpp',
          'src/Geometry/GeometryHelper.cpp', 'src/Matrix/AMatrix.cpp', 'src/Matrix/AMatrixDense.cpp', 'src/Matrix/AMatrixSquare.cpp', 'src/Matrix/MatrixSquareGeneral.cpp',
          'src/Matrix/MatrixRectangular.cpp']
_BD_STUBS = ['AMatrixDense::_invert (Eigen PartialPivLU inverse): exact inverse of the 3x3 system on the same Eigen storage, computed as E adj(B)/det(B) with B = A E '
             '(E subtracts column 0 from columns 1 and 2); returns 1 when the determinant is 0',
             'NF_Triplet::add(irow, icol, value): recorded (row/column maxima updated as the real one does, no Eigen storage); MatrixSparse::resetFromTriplet: counted',
             'Db::getSampleNumber: 1; Db::isActive: true; Db::getCoordinate (virtual slot of the raw Db): the symbolic point; AMesh::isCompatibleDb: 0 (compatible)',
             'messerr / message / mesArg / mestitle: empty']
_BD_ASSUME = ['real-arithmetic reading of the code; native validation / replay compares the exact identities up to 1e-9',
              'MeshETurbo and Db are raw storage; the mesh carries the real virtual table, a really constructed unrotated Grid, identity Indirections (no mask); ProjMatrix is an untouched raw buffer',
              'origin |x0| < 1e6, mesh 0 < dx < 1e6 (far below the undefined value 1.234e30)']
_BD_WHAT = ('MeshETurbo::resetProjMatrix on its real path: Grid::coordinateToIndicesInPlace, the shift of an upper-border point down by one node (in every dimension where it applies), '
            '_addElementToTriplet, _addWeights (MSS, _getPolarized, Grid::indiceToRank / indiceToCoordinate, Indirection, MatrixSquareGeneral storage, AMatrix::invert, prodMatVecInPlace), NF_Triplet::force: '
            'the row of the point is not empty: exactly 3 entries in row 0 at three distinct grid nodes; weights in [0,1]; they sum to one and reproduce the coordinates of the point '
            '(sum_i w_i index_d(node_i) == (p_d - x0_d)/dx_d) exactly when no weight sits on a bound of [0,1], and within 3 (resp. 6) EPSILON6 otherwise (_addWeights accepts solved weights in '
            '[-EPSILON6, 1+EPSILON6] and clips them)')
_BD_OUT = ('the Eigen LU inverse (replaced by an exact inverse); points within eps*dx below a grid line (C15.d2.band); masked grids; rotated grids; 1-D / 3-D; several samples and the row '
           'numbering (C15.d); floating-point rounding')
_BD_BAND = 'the point is not within eps = EPSILON6 (relative to the mesh) below a grid line: floor(t + eps) == floor(t) for t = (x - x0)/dx in each dimension'
# (id, polarisation, meshes concrete?, parity hint, tiers)
for _id, _pol, _dxc, _tiers in (('C15.d2.p0', 0, False, ('quick', 'thorough')), ('C15.d2.p1', 1, True, ('quick', 'thorough')), ('C15.d2.p1.dx', 1, False, ('thorough',))):
    _d = {'VF_POLAR': _pol}
    if _dxc:
        _d.update({'VF_DX0': '1.', 'VF_DX1': '2.'})
    elif _pol:
        _d['VF_SPLIT_PARITY'] = 1
    K(_id, property='C15', engine='symex', harness='C15/border.cpp', entry='k_border_exact', tus=_BDTUS, defines={'all': _d}, symex={'lazy_div': False}, tiers=_tiers,
      bounds={'quick': '2-D grid of 3x3 nodes, unrotated, arbitrary real origin, %s, %s, no mask; one sample at an arbitrary real point of the CLOSED grid domain '
                       '[x0, x0 + 2 dx] x [y0, y0 + 2 dy] (lower and upper borders, all four corners), except points within 1e-6 dx below a grid line' % (
                           'meshes dx = 1, dy = 2' if _dxc else 'arbitrary real meshes dx, dy > 0', 'polarised (diamond) meshing' if _pol else 'no polarisation')},
      timeout_ms={'quick': 120000, 'thorough': 600000}, validate={'quick': 200, 'thorough': 400}, validate_doubles='dyadic',
      what=_BD_WHAT, out=_BD_OUT, assumptions=_BD_ASSUME + [_BD_BAND] + ['symex option lazy_div off: the only division by a symbolic value is by the determinant of the corner system, '
                                                                    'which is a constant (dx*dy up to sign) after simplification'],
      stubs=_BD_STUBS)
K('C15.d2.band', property='C15', engine='symex', harness='C15/border.cpp', entry='k_border_band', tus=_BDTUS,
  defines={'all': {'VF_DX0': '1.', 'VF_DX1': '2.', 'VF_POLAR': 0, 'VF_X0': 'vf_grid_double(1024)', 'VF_LATTICE': 1}}, symex={'lazy_div': False},
  bounds={'quick': '2-D grid of 3x3 nodes, unrotated, integer origin |x0| <= 1024, meshes dx = 1, dy = 2, no polarisation, no mask; one sample at ANY point of the closed grid domain on the '
                   'dyadic lattice 2^-22 dx (exact in IEEE double), the round-off guard band below the grid lines included'},
  timeout_ms={'quick': 120000, 'thorough': 600000}, validate={'quick': 100, 'thorough': 200}, validate_doubles='int',
  what='as C15.d2.p0 without the guard-band assumption: the row of the point is not empty (3 entries, distinct nodes), weights in [0,1], sum and coordinates reproduced within 3 / 6 EPSILON6',
  out=_BD_OUT, assumptions=_BD_ASSUME, stubs=_BD_STUBS)

CLAIMS['C15'] += (' C15.d2: the real path of MeshETurbo::resetProjMatrix (start node, upper-border shift, _addWeights with an exact linear solve) gives every point of the closed domain of a '
                  '3x3 grid a complete row of non-negative weights that sum to one and reproduce its coordinates.')
