"""constants shared by C10.a (vf/reg/C10.py) and C04.b (vf/reg/C04.py): same harness, same oracle"""
_KC_TUS = ['src/Estimation/KrigingCalcul.cpp', 'src/Matrix/AMatrix.cpp', 'src/Matrix/AMatrixDense.cpp', 'src/Matrix/MatrixRectangular.cpp',
           'src/Matrix/AMatrixSquare.cpp', 'src/Matrix/MatrixSquareSymmetric.cpp', 'src/Basic/AStringable.cpp']
_KC_BOUNDS = {'quick': 'every null/non-null combination of the 18 memo matrices + _C_RHS/_X_RHS, every empty/non-empty combination of _Zstar/_Beta/_Z0p/_bDual/_cDual, '
                       'every present/absent combination of the 13 input pointers, _neq/_nbfl/_nrhs/_ncck/_nxvalid in [0,3] (setXvalidUnique: _nbfl in {0,1}, one cross-validated equation), '
                       'arbitrary flags; arguments null or objects of fixed small shape'}
_KC_WHAT = ('KrigingCalcul::setData, setLHS, setRHS, setVar, setColCokUnique, setBayes, setXvalidUnique (+ _patchRHSForXvalidUnique), resetLinkedTo* (7) with the _delete* graph: '
            'every memo that transitively depends (table read from the _need* functions, written in the harness) on an input the call replaced is null/empty afterwards')
_KC_OUT = ('values of the matrices (Schur algebra); _C_RHS/_X_RHS as functions of Sigma/X (eager patches, not _need memos); formal edge rankXvalidVars -> Zstar; '
           'half-built memo left by a failing _need* (DESIGN S5); _bDual/_cDual (recomputed on every request)')
_KC_ASSUME = ['KrigingCalcul object built by its constructor, then every field overwritten with the arbitrary pre-state',
              'memo objects are real MatrixRectangular(1,1)/MatrixSquareSymmetric(1) so that delete runs the real destructors',
              '"replaced" is observed on the object: input field (or _ncck/_flagSK/_flagBayes) differs from its pre-state value']
_KC_STUBS = ['messerr / message: empty (error text only)', 'strlen: plain loop (solver build only)',
             'only reached from setXvalidUnique: AMatrix::invert (succeeds or fails arbitrarily), AMatrix::linearCombination, AMatrix::prodMatMatInPlace, AMatrixDense::prodMatMatInPlace, '
             'AMatrix::prodNormMatMatInPlace, MatrixRectangular::unsample: empty; MatrixFactory::prodMatMat, MatrixRectangular::sample, MatrixSquareSymmetric::sample: return a fresh 1x1 matrix']
_KC_ENTRIES = ['k_setData', 'k_setLHS', 'k_setRHS', 'k_setVar', 'k_setColCokUnique', 'k_setBayes', 'k_setXvalidUnique']
