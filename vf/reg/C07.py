from kernels import K

# ---------------------------------------------------------------- C07  (Db table bookkeeping)
_C07TUS = ['src/Db/Db.cpp', 'src/Db/PtrGeos.cpp', 'src/Basic/AStringable.cpp']
_C07STUBS = [
    'Db::getNEloc() -> 29 (ELoc keeps its value->object map in a std::map filled by static constructors, which kernels do not run; '
    'the native build aborts if the library value differs)',
    'static ELoc objects UNKNOWN/X/Z/V/SEL/DOM: field _value written by the harness in the solver build (-1/0/1/2/10/11, no static constructors there)',
    'VectorT<String>::begin() / VectorT<String>::erase(const_iterator) (only reached through Db::_colNames in deleteColumnByUID): '
    'integer model of the name table kept by the harness; Db::_colNames itself is never constructed',
    'mesArg(title,current,nmax) (AStringable.cpp; error text of checkArg, formats through a va_list) -> empty',
    'Db object: raw storage, constructor not run; fields _ncol,_nech,_array,_uidcol,_p built directly (std::vector / VectorInt / PtrGeos are the real classes)',
]
_C07ASSUME = ['pre-state: arbitrary tables satisfying the representation invariant I (identifier table one-to-one onto the columns, '
              'role lists hold live pairwise distinct identifiers, role types 3..28 empty); every shape (list lengths, argument class) '
              'is a value of one symbolic configuration input, identifiers / table contents are symbolic within a shape']
_Q = {'VF_NCOL': 2, 'VF_NUID': 4, 'VF_NECH': 2}
_T = {'VF_NCOL': 3, 'VF_NUID': 5, 'VF_NECH': 2}
_QB = '2 live columns, 4 identifiers (2 deleted), 2 samples, role types 0..2 with every combination of list lengths (sum <= 2)'
_TB = '3 live columns, 5 identifiers (2 deleted), 2 samples, role types 0..2 with every combination of list lengths (sum <= 3)'
_COMMON = dict(property='C07', engine='symex', tus=_C07TUS, validate_doubles='int',
               timeout_ms={'quick': 120000, 'thorough': 900000},
               symex={'max_steps': 30000000},
               cxxflags=['-fno-sanitize=vptr'],  # sanitizer replay builds: the Db lives in raw storage (no vptr)
               assumptions=_C07ASSUME, stubs=_C07STUBS)
_NOREALLOC = 'std::vector reallocation (list storage is reserved up front)'


def _loc(kid, mode, tmin, tmax, tiers, dom, what, out, validate=None):
    K(kid, harness='C07/locator.cpp', entry='k_set_locator', tiers=tiers,
      defines={'all': {'VF_MODE': mode, 'VF_TMIN': tmin, 'VF_TMAX': tmax}, 'quick': _Q, 'thorough': _T},
      bounds={'quick': _QB + '; ' + dom, 'thorough': _TB + '; ' + dom},
      validate=validate or {'quick': 40, 'thorough': 80}, what=what, out=out + '; ' + _NOREALLOC, **_COMMON)


_A_WHAT = ('Db::setLocatorByUID with PtrGeos::findUIDInLocator/erase/resize/setLocatorByIndex, Db::clearLocators, isUIDValid/checkArg: '
           'I preserved, no column with two roles, designated column gets the designated role, every other designation unchanged')
_A_DOM = ('target type %s; rank argument -1 or 0..count; cleanSameLocator both; identifier negative / too large / live without role / at every list position; '
          'the argument classes (automatic rank, identifier already of the target type) and (UNKNOWN with cleanSameLocator) are decided by C07.a.reassign / C07.a.uclean')
_A_OUT = 'negative rank arguments other than -1 (the code only tests < 0); explicit ranks beyond the count (C07.g); stale identifiers (C07.a.stale); names'
_loc('C07.a', 0, -1, 2, ('quick',), _A_DOM % 'UNKNOWN/0/1/2', _A_WHAT, _A_OUT)
for _t, _tn in ((-1, 'u'), (0, '0'), (1, '1'), (2, '2')):
    _loc('C07.a.' + _tn, 0, _t, _t, ('thorough',), _A_DOM % ('UNKNOWN' if _t < 0 else str(_t)), _A_WHAT, _A_OUT)
_loc('C07.a.reassign', 3, 0, 2, ('quick', 'thorough'),
     'target type 0/1/2, automatic rank (-1), cleanSameLocator false, the identifier already holds a role of the target type (every position)',
     'Db::setLocatorByUID(iuid, t, -1) for a column that already has a role of type t: same assertions as C07.a', 'names')
_loc('C07.a.uclean', 4, -1, -1, ('quick', 'thorough'),
     'target ELoc::UNKNOWN with cleanSameLocator true and a valid identifier (live without role / at every list position)',
     'Db::setLocatorByUID(iuid, ELoc::UNKNOWN, k, true) -> Db::clearLocators(UNKNOWN): memory safety and the assertions of C07.a',
     'translator validation by random execution is switched off for this kernel (the native behaviour of the out-of-bounds access is undefined); '
     'counterexamples are still replayed natively under the address sanitizer', validate={'quick': 0, 'thorough': 0})
_loc('C07.a.stale', 2, 0, 2, ('quick', 'thorough'),
     'target type 0/1/2; rank argument -1 or 0..count; cleanSameLocator both; the identifier argument is in range but designates a deleted column',
     'Db::setLocatorByUID called with the identifier of a deleted column (accepted by isUIDValid): role lists keep designating live columns only', 'names')
_loc('C07.g', 1, 0, 2, ('quick', 'thorough'),
     'target type 0/1/2; explicit rank argument count+1 or count+2 (count = roles of the target type once the identifier / the cleaned list is taken out); '
     'cleanSameLocator both; identifier live without role / at every list position',
     'Db::setLocatorByUID with an explicit rank beyond the current count (PtrGeos::resize padding): roles of one type stay numbered consecutively '
     '(every rank up to the count designates a live column), no column has two roles', 'ranks further than count+2')

K('C07.d', harness='C07/setmany.cpp', entry='k_set_many', tiers=('quick', 'thorough'),
  defines={'all': {'VF_N': 2}, 'quick': _Q, 'thorough': _T},
  bounds={'quick': '2 live columns, 4 identifiers, 2 designated columns / identifiers per call (arbitrary, also invalid or repeated); target type UNKNOWN or 1; '
                   'target list of every length 0..2; rank argument -2..4; cleanSameLocator both (not with UNKNOWN)',
          'thorough': '3 live columns, 5 identifiers, target list length 0..3, rank argument -2..5'},
  validate={'quick': 60, 'thorough': 100},
  what='Db::setLocatorByColIdx, Db::setLocatorsByUID (both overloads), Db::setLocatorsByColIdx with getUIDByColIdx, clearLocators, _getNextLocator: '
       'the (identifier, type, rank) triples handed to setLocatorByUID designate the columns the caller named, rank k+i',
  out='the effect of the single assignments (C07.a) and their composition when a designated column already holds a role of the target type '
      '(same mechanism as C07.a.reassign / C07.g); ELoc::UNKNOWN with cleanSameLocator (C07.a.uclean)',
  **{**_COMMON, 'stubs': _C07STUBS + ['Db::setLocatorByUID -> recorder of its arguments (its own behaviour is decided by the C07.a kernels)']})

K('C07.b', harness='C07/delcol.cpp', entry='k_delete_column', tiers=('quick', 'thorough'),
  defines={'quick': {'VF_NCOL': 3, 'VF_NUID': 4, 'VF_NECH': 2}, 'thorough': {'VF_NCOL': 4, 'VF_NUID': 5, 'VF_NECH': 2}},
  bounds={'quick': 'enumerated through one symbolic configuration input: every one-to-one identifier table of 3 columns in 4 identifiers (24), identifier argument '
                   '-1 / 0..3 (live or deleted) / 4, four role-list shapes (none; all columns in one type; [last,first]+[rest]; [first]+[last] with a free column); '
                   '2 samples with symbolic values',
          'thorough': 'same with 4 columns in 5 identifiers (120 tables)'},
  validate={'quick': 60, 'thorough': 100},
  what='Db::deleteColumnByUID with getColIdxByUID, isUIDValid/isColIdxValid, PtrGeos::findUIDInLocator/erase, std::vector<double>::resize: '
       'I preserved; identifier table shift; value compaction; name removal; role removal; all other designations unchanged',
  out='name strings (integer model of the name table); role-list shapes other than the four listed (the list handling is the one of C07.a); ' + _NOREALLOC,
  **_COMMON)

K('C07.e', harness='C07/getters.cpp', entry='k_getters', tiers=('quick', 'thorough'),
  defines={'quick': {'VF_NCOL': 2, 'VF_NUID': 4, 'VF_NECH': 1}, 'thorough': {'VF_NCOL': 3, 'VF_NUID': 5, 'VF_NECH': 1}},
  bounds={'quick': '2 live columns, 4 identifiers (2 deleted), role types 0..2 with every combination of list lengths (sum <= 2), arbitrary identifiers / positions; '
                   'identifier argument -2..5, column argument -2..3, every rank 0..count of the types 0..3',
          'thorough': '3 live columns, 5 identifiers, list lengths with sum <= 3'},
  validate={'quick': 60, 'thorough': 100},
  what='Db::getColIdxByUID, getUIDByColIdx, getColIdxByLocator, getLocatorByColIdx, getLocatorByUID (with isUIDValid, isColIdxValid, checkArg): '
       'each equals the table content; mutually inverse on every state satisfying I',
  out='negative rank arguments of getColIdxByLocator (documented as starting from 0; the code indexes the list without a lower bound check); names',
  **{**_COMMON, 'stubs': _C07STUBS + ['ELoc::fromValue(v) -> harness-owned ELoc object with _value = v (the library looks it up in the static std::map)']})


# ---------------------------------------------------------------- C07.n name uniqueness: correctNamesForDuplicates with the real std::string code (harness/C07/names.cpp)
# pass pipeline without instcombine (it rewrites the short memcpy of the string code into integer loads/stores over the characters, as C09.g) and without
# simplifycfg (no if-conversion: every combination of names is a path of its own, explored without state merging, so that all string contents are concrete)
_NAMES_PASSES = 'function(sroa,early-cse),cgscc(inline),function(sroa,early-cse,adce),globaldce'
for _n, _tiers in ((2, ('quick', 'thorough')), (3, ('quick', 'thorough')), (4, ('quick', 'thorough')), (5, ('thorough',))):
    K('C07.n.%d' % _n, property='C07', engine='symex', harness='C07/names.cpp', entries=['k_names', 'k_newname'], tiers=_tiers,
      tus=['src/Basic/String.cpp'], defines={'all': {'VF_N': _n}}, passes=_NAMES_PASSES,
      symex={'no_merge': True, 'max_steps': 50000000},
      bounds={'quick': 'list of exactly %d names, each chosen independently in the family "v", "v.1", "v.1.1", "v.2", "w" (all %d combinations); renaming: the same with one position (any) holding the new name and the other names pairwise distinct' % (_n, 5 ** _n)},
      timeout_ms={'quick': 60000, 'thorough': 300000}, validate={'quick': 40, 'thorough': 80},
      what='REAL correctNamesForDuplicates (the name-uniqueness step of Db::addColumns* / setName(s) / the Db loaders) with the real std::string and VectorT<String> code '
           '(comparison, assignment, copy-on-write detach): the list keeps its length, all names are pairwise distinct afterwards, the first name and every name that '
           'clashes with no name before it are unchanged, a corrected name is its original followed by a suffix; REAL correctNewNameForDuplicates(list, rank) (Db::setNameByColIdx / setNameByUID) '
           'on a table whose other names are unique: the other names are unchanged, all names pairwise distinct afterwards, a new name that clashes with none is unchanged',
      out='names outside the family, longer lists; the text of the version suffix (formatting through std::stringstream); '
          'the callers in Db.cpp (name table of the Db: integer model in C07.b/c)',
      assumptions=['names are short (at most 15 characters with their suffixes: small-string storage)'],
      stubs=['solver build only (the native build runs the library function and libc):',
             'incrementStringVersion(string, rank, delim) -> string + delim + decimal digit of rank (the real one formats through a std::stringstream)',
             'strlen, memcmp: byte loops'])
