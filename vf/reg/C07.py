from kernels import K

# ---------------------------------------------------------------- C07  (Db table bookkeeping)
_C07TUS = ['src/Db/Db.cpp', 'src/Db/PtrGeos.cpp', 'src/Basic/AStringable.cpp']
_C07STUBS = [
    'Db::getNEloc() -> 29 (ELoc keeps its value->object map in a std::map filled by static constructors, which kernels do not run; '
    'the native build aborts if the library value differs)',
    'static ELoc objects UNKNOWN/X/Z/V/SEL/DOM: field _value written by the harness in the solver build (-1/0/1/2/10/11, no static constructors there)',
    'VectorT<String>::begin() / VectorT<String>::erase(const_iterator) (only reached through Db::_colNames in deleteColumnByUID): '
    'integer model of the name table kept by the harness; Db::_colNames itself is never constructed',
    'mesArg(title,current,nmax) (AStringable.cpp; error text of checkArg, formats through a va_list) -> empty',
    'Db object: raw storage, constructor not run; fields _ncol,_nech,_array,_uidcol,_p built directly (std::vector / VectorInt / PtrGeos are the real classes)',
]
_C07ASSUME = ['pre-state: arbitrary tables satisfying the representation invariant I (identifier table one-to-one onto the columns, '
              'role lists hold live pairwise distinct identifiers, role types 3..28 empty)']

for _t, _tn in ((-1, 'u'), (0, '0'), (1, '1'), (2, '2')):
    K('C07.a.' + _tn, property='C07', engine='symex', harness='C07/locator.cpp', entry='k_set_locator', tus=_C07TUS,
      defines={'all': {'VF_MODE': 0, 'VF_TMIN': _t, 'VF_TMAX': _t},
               'quick': {'VF_NCOL': 3, 'VF_NUID': 5, 'VF_NECH': 2}, 'thorough': {'VF_NCOL': 4, 'VF_NUID': 6, 'VF_NECH': 2}},
      bounds={'quick': '3 live columns, 5 identifiers, 2 samples, role types 0..2 with every combination of list lengths (sum <= 3); '
                       'target type %s; rank argument -1 or 0..count; cleanSameLocator both; identifier negative / too large / live without role / at every list position'
                       % ('UNKNOWN' if _t < 0 else str(_t)),
              'thorough': 'same with 4 live columns, 6 identifiers'},
      timeout_ms={'quick': 120000, 'thorough': 900000}, validate={'quick': 40, 'thorough': 80}, validate_doubles='int',
      symex={'max_steps': 20000000},
      what='Db::setLocatorByUID with PtrGeos::findUIDInLocator/erase/resize/setLocatorByIndex, Db::clearLocators, isUIDValid/checkArg: '
           'I preserved, no column with two roles, designated column gets the designated role, every other designation unchanged',
      out='negative rank arguments other than -1 (the code only tests < 0); explicit ranks beyond the count (C07.g); stale identifiers (C07.a.stale); '
          'names; std::vector reallocation (list storage is reserved up front)',
      assumptions=_C07ASSUME, stubs=_C07STUBS)
