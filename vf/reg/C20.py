from kernels import K

# ---------------------------------------------------------------- C20
_C20TUS = ['src/Polygon/PolyElem.cpp', 'src/Basic/PolyLine2D.cpp', 'src/Basic/AStringable.cpp', 'src/Basic/ASerializable.cpp']
for _nv, _tiers in ((3, ('quick', 'thorough')), (4, ('quick', 'thorough')), (5, ('quick', 'thorough')), (6, ('quick', 'thorough')),
                    (7, ('thorough',)), (8, ('thorough',))):
    K('C20.a.%d' % _nv, property='C20', engine='symex', harness='C20/inside.cpp', entry='k_polyelem_inside', tus=_C20TUS,
      defines={'all': {'VF_NV': _nv}}, tiers=_tiers,
      bounds={'quick': 'closed polyline with exactly %d vertices (arbitrary, also self-intersecting), vertices and query point on the integer grid |v|<=2^20, point off the boundary' % _nv},
      timeout_ms={'quick': 240000, 'thorough': 1800000}, validate={'quick': 40, 'thorough': 100}, validate_doubles='int',
      symex={'fp_exact': True}, require_exact=False,
      what='PolyElem::inside (with PolyElem/PolyLine2D constructors, VectorT accessors) == exact even-odd crossing parity',
      out='non-grid coordinates (floating rounding near the boundary), more vertices than the bound',
      assumptions=['coordinates are integers with |v| <= 2^20: every +,-,* result is an integer below 2^53 (discharged as "exact" obligations) so the real-arithmetic verdict transfers to IEEE doubles; the single division is only compared (DESIGN 1.4 lemma)'])


_C20PTUS = ['src/Polygon/Polygons.cpp', 'src/Basic/Utilities.cpp'] + _C20TUS
for _np, _tiers in ((1, ('quick', 'thorough')), (2, ('quick', 'thorough')), (3, ('quick', 'thorough')), (4, ('thorough',))):
    K('C20.c.%d' % _np, property='C20', engine='symex', harness='C20/polyset.cpp', entries=['k_polygons_inside_2d', 'k_polygons_inside_3d', 'k_inside3d'],
      tus=_C20PTUS, defines={'all': {'VF_NPOL': _np}}, tiers=_tiers,
      bounds={'quick': '%d polygon elements; per element: arbitrary 2-D answer, each vertical limit absent or any level; query 2-D or 3-D with z undefined or any level; union and nested rules' % _np},
      timeout_ms={'quick': 60000, 'thorough': 300000}, validate={'quick': 40, 'thorough': 100},
      what='Polygons::inside, Polygons::getClosedPolyElem, PolyElem::inside3D/closePolyElem/_isClosed, copy constructors: union / odd-count rule with vertical limits',
      out='the 2-D test itself (C20.a); db_polygon sample loop; convex hull',
      stubs=['PolyElem::inside -> arbitrary boolean per element (identified by its first vertex)'],
      assumptions=['undefined value is TEST=1.234e30 (FFFF(x) is x > 1e30 in the NaN-free reading)'])

for _nv, _tiers in ((3, ('quick', 'thorough')), (4, ('quick', 'thorough')), (5, ('thorough',)), (6, ('thorough',))):
    K('C20.b.%d' % _nv, property='C20', engine='symex', harness='C20/open.cpp', entries=['k_open_polygon', 'k_close_rules'], tus=_C20PTUS,
      defines={'all': {'VF_NV': _nv}}, tiers=_tiers,
      bounds={'quick': 'one polygon element given open with %d grid vertices (|v|<=2^20, arbitrary, first != last), grid query point off the boundary' % _nv},
      timeout_ms={'quick': 240000, 'thorough': 1800000}, validate={'quick': 40, 'thorough': 100}, validate_doubles='int',
      symex={'fp_exact': True},
      what='Polygons::inside + getClosedPolyElem + PolyElem::closePolyElem/_isClosed/addPoint + the real PolyElem::inside: open polygons are closed by repeating vertex 0, closed ones unchanged',
      out='polygons whose end points differ by less than the closing tolerance 1e-5 but are not equal (cannot occur on the integer grid)',
      assumptions=['integer grid coordinates |v| <= 2^20 (exactness bridge as in C20.a)'])
