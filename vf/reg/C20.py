from kernels import K

# ---------------------------------------------------------------- C20
_C20TUS = ['src/Polygon/PolyElem.cpp', 'src/Basic/PolyLine2D.cpp', 'src/Basic/AStringable.cpp', 'src/Basic/ASerializable.cpp']
for _nv, _tiers in ((3, ('quick', 'thorough')), (4, ('quick', 'thorough')), (5, ('quick', 'thorough')), (6, ('quick', 'thorough')),
                    (7, ('thorough',)), (8, ('thorough',))):
    K('C20.a.%d' % _nv, property='C20', engine='symex', harness='C20/inside.cpp', entry='k_polyelem_inside', tus=_C20TUS,
      defines={'all': {'VF_NV': _nv}}, tiers=_tiers,
      bounds={'quick': 'closed polyline with exactly %d vertices (arbitrary, also self-intersecting), vertices and query point on the integer grid |v|<=2^20, point off the boundary' % _nv},
      timeout_ms={'quick': 240000, 'thorough': 1800000}, validate={'quick': 40, 'thorough': 100}, validate_doubles='int',
      symex={'fp_exact': True}, require_exact=False,
      what='PolyElem::inside (with PolyElem/PolyLine2D constructors, VectorT accessors) == exact even-odd crossing parity',
      out='non-grid coordinates (floating rounding near the boundary), more vertices than the bound',
      assumptions=['coordinates are integers with |v| <= 2^20: every +,-,* result is an integer below 2^53 (discharged as "exact" obligations) so the real-arithmetic verdict transfers to IEEE doubles; the single division is only compared (DESIGN 1.4 lemma)'])


_C20PTUS = ['src/Polygon/Polygons.cpp', 'src/Basic/Utilities.cpp'] + _C20TUS
for _np, _tiers in ((1, ('quick', 'thorough')), (2, ('quick', 'thorough')), (3, ('quick', 'thorough')), (4, ('thorough',))):
    K('C20.c.%d' % _np, property='C20', engine='symex', harness='C20/polyset.cpp', entries=['k_polygons_inside_2d', 'k_polygons_inside_3d', 'k_inside3d'],
      tus=_C20PTUS, defines={'all': {'VF_NPOL': _np}}, tiers=_tiers,
      bounds={'quick': '%d polygon elements; per element: arbitrary 2-D answer, each vertical limit absent or any level; query 2-D or 3-D with z undefined or any level; union and nested rules' % _np},
      timeout_ms={'quick': 60000, 'thorough': 300000}, validate={'quick': 40, 'thorough': 100},
      what='Polygons::inside, Polygons::getClosedPolyElem, PolyElem::inside3D/closePolyElem/_isClosed, copy constructors: union / odd-count rule with vertical limits',
      out='the 2-D test itself (C20.a); db_polygon sample loop; convex hull',
      stubs=['PolyElem::inside -> arbitrary boolean per element (identified by its first vertex)'],
      assumptions=['undefined value is TEST=1.234e30 (FFFF(x) is x > 1e30 in the NaN-free reading)'])

for _nv, _tiers in ((3, ('quick', 'thorough')), (4, ('quick', 'thorough')), (5, ('thorough',)), (6, ('thorough',))):
    K('C20.b.%d' % _nv, property='C20', engine='symex', harness='C20/open.cpp', entries=['k_open_polygon', 'k_close_rules'], tus=_C20PTUS,
      defines={'all': {'VF_NV': _nv}}, tiers=_tiers,
      bounds={'quick': 'one polygon element given open with %d grid vertices (|v|<=2^20, arbitrary, first != last), grid query point off the boundary' % _nv},
      timeout_ms={'quick': 240000, 'thorough': 1800000}, validate={'quick': 40, 'thorough': 100}, validate_doubles='int',
      symex={'fp_exact': True},
      what='Polygons::inside + getClosedPolyElem + PolyElem::closePolyElem/_isClosed/addPoint + the real PolyElem::inside: open polygons are closed by repeating vertex 0, closed ones unchanged',
      out='polygons whose end points differ by less than the closing tolerance 1e-5 but are not equal (cannot occur on the integer grid)',
      assumptions=['integer grid coordinates |v| <= 2^20 (exactness bridge as in C20.a)'])


# ---------------------------------------------------------------- C20.e db_polygon: selection of data-base samples by a polygon set (harness/C20/dbpoly.cpp)
for _n, _nd, _tiers in ((3, 2, ('quick', 'thorough')), (3, 3, ('quick', 'thorough')), (5, 2, ('thorough',))):
    K('C20.e.%d.%dd' % (_n, _nd), property='C20', engine='symex', harness='C20/dbpoly.cpp', entry='k_db_polygon',
      tus=['src/Polygon/Polygons.cpp', 'src/Db/Db.cpp', 'src/Basic/AStringable.cpp', 'src/Basic/Utilities.cpp'],
      defines={'all': {'VF_NECH': _n, 'VF_NDIM': _nd}}, tiers=_tiers, cxxflags=['-fno-sanitize=vptr'],
      bounds={'quick': 'exactly %d samples in a %d-D data base, arbitrary integer-grid coordinates |v| <= 2^20, every mask, every answer of the geometric test per (sample, longitude shift), '
                       'flag_sel / flag_period / flag_nested arbitrary' % (_n, _nd)},
      timeout_ms={'quick': 120000, 'thorough': 600000}, validate={'quick': 40, 'thorough': 80}, validate_doubles='int',
      what='db_polygon (sample loop, coordinate vector, periodic shifts) with the real Db::getCoordinatesPerSampleInPlace: the value written for each sample equals '
           'Polygons::inside(coordinates of that sample) for active samples, 0 for masked ones when flag_sel, the OR over the shifts -360 / 0 / +360 of the first coordinate when flag_period; '
           'exactly one write per sample, in the newly created column, which is then named',
      out='the geometric test itself (C20.a, C20.b, C20.c); column creation, naming and locator setting inside Db / NamingConvention; db_selhull',
      assumptions=['integer-grid coordinates: x - 360 and x + 360 are exact'],
      stubs=['Polygons::inside -> arbitrary boolean per (sample, longitude shift); asserts that it receives the coordinates of the sample being processed, the given nesting option and polygon set',
             'Db object is raw storage + the vptr of harness class PolyDb: PolyDb::getNDim -> VF_NDIM, PolyDb::getCoordinate -> symbolic grid coordinates (both virtual, called by the real Db::getCoordinatesPerSampleInPlace)',
             'Db::addColumnsByConstant -> returns an arbitrary column identifier in [0, 1000], counts the call; Db::getSampleNumber -> VF_NECH; Db::isActive -> symbolic; Db::setArray -> records (sample, value), checks the column',
             'ELoc::fromKey -> ELoc::UNKNOWN (default argument of addColumnsByConstant evaluated by db_polygon)',
             'mes_process -> no-op; NamingConvention::setNamesAndLocators(Db*, int, ...) -> counts the call, checks the column',
             'Polygons and NamingConvention objects are raw storage, never read'])


# ---------------------------------------------------------------- C20.f Polygons::_getHullIndices: convex hull by gift wrapping (harness/C20/hull.cpp)
# explored path by path: no state merging (symex no_merge) and a pass pipeline without simplifycfg (no if-conversion into selects)
_HULL_PASSES = 'cgscc(inline),function(sroa,early-cse,instcombine,dce)'
for _tag, _n, _mode, _xb, _swap, _tiers in (
        ('4p', 4, 1, 0, 0, ('quick', 'thorough')), ('4pt', 4, 1, 0, 1, ('thorough',)),
        ('4t', 4, 2, 4, 0, ('thorough',)), ('4tt', 4, 2, 3, 1, ('thorough',)),
        ) + tuple(('5p%d' % _l0, 5, 1, 0, 0, ('thorough',)) for _l0 in range(5)):
    _fam = ('any permutation of 0..%d' % (_n - 1)) if _mode == 1 else ('any tuple over 0..%d (ties included)' % (_xb - 1))
    if _tag.startswith('5p'):
        _fam += ' whose first value is %s' % _tag[2:]
    K('C20.f.' + _tag, property='C20', engine='symex', harness='C20/hull.cpp', entry='k_hull',
      tus=['src/Polygon/Polygons.cpp', 'src/Basic/AStringable.cpp', 'src/Basic/Utilities.cpp'],
      defines={'all': dict({'VF_N': _n, 'VF_G': 1048576, 'VF_XMODE': _mode, 'VF_XB': max(_xb, 1), 'VF_SWAP': _swap}, **({'VF_L0': _tag[2:]} if _tag.startswith('5p') else {}))}, tiers=_tiers,
      symex={'no_merge': True, 'max_steps': 6000000 if 'quick' in _tiers else 200000000}, passes=_HULL_PASSES,
      bounds={'quick': 'exactly %d points in general position (no three collinear); %s: %s; the other coordinate of every point: arbitrary integer |v| <= 2^20'
                       % (_n, 'ordinates' if _swap else 'abscissae', _fam)},
      timeout_ms={'quick': 120000, 'thorough': 600000}, validate={'quick': 40, 'thorough': 80}, validate_doubles='int',
      what='Polygons::_getHullIndices: the returned ring is closed, has 3..n distinct valid vertices, every input point lies on the same side of (or on) every ring edge '
           '(exact cross products), the wrapping loop terminates and stays inside its index array',
      out='point sets whose both coordinates are arbitrary (the products of two unknowns make the path feasibility undecidable for the solver in practice: exploration does not end); '
          'collinear triples (the EPSILON6 test discarding the middle point), duplicates, more points than the bound; the dilation of db_selhull',
      assumptions=['no three input points are collinear (stated as |cross product| >= 1, equivalent on the integer grid)',
                   'real-arithmetic reading of the centroid (sum / n) used as first wrapping direction (exact for n = 4); all other products are exact on the grid'],
      stubs=[])
