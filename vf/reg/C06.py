from kernels import K

# ---------------------------------------------------------------- C06
K('C06.e', engine='symex', harness='C06/sort.cpp', entry='k_sort', tus=['src/Tree/neighbors_heap.cpp'],
  defines={'quick': {'VF_N': 6}, 'thorough': {'VF_N': 7}},   # size 8: z3 returns unknown on the permutation obligations within 10 min per query
  bounds={'quick': 'size 0..6, arbitrary distinct-or-equal finite distances', 'thorough': 'size 0..7'},
  timeout_ms={'quick': 120000, 'thorough': 900000},
  validate={'quick': 30, 'thorough': 60},
  what='simultaneous_sort/dual_swap (neighbors_heap.cpp): output ascending, (dist,idx) pairs stay a permutation; full recursion executed',
  out='NaN distances; sizes above the bound',
  assumptions=['distances are finite reals (comparison-only code: the real reading is exact for finite doubles)'])

# ---- C06.d nheap_push, inductive step from an arbitrary max-heap row
for _k in (1, 2, 3, 4, 5):
    K('C06.d.%d' % _k, property='C06', engine='symex', harness='C06/heap.cpp', entry='k_heap_push',
      tus=['src/Tree/neighbors_heap.cpp'], defines={'all': {'VF_K': _k}},
      bounds={'quick': 'heap row of exactly %d (distance, index) pairs: arbitrary finite distances satisfying the max-heap invariant, arbitrary int indices; arbitrary pushed pair' % _k},
      timeout_ms={'quick': 60000, 'thorough': 300000}, validate={'quick': 30, 'thorough': 60},
      what='nheap_push (neighbors_heap.cpp): max-heap invariant preserved; pair multiset = old minus root plus new when new < max, unchanged when new > max',
      out='INFINITY entries of a freshly initialised heap (comparison-only code: +inf behaves as a largest value); NaN; ties new == max checked on distances only',
      assumptions=['distances are finite reals (comparison-only code: the real reading is exact for finite doubles)',
                   'pre-state: any row with d[(i-1)/2] >= d[i] (the representation invariant of the heap)'],
      stubs=[])

# ---- C06.a / C06.b sector quota and nmaxi selection over the distance-sorted candidate list
_SEL_STUBS = ['NeighMoving object is raw storage (no constructor): _nSect, _nSMax, _nMaxi, _movingInd, _movingDst, _movingIsect, _movingNsect initialised by the harness exactly as attach()/_moving() size and fill them']
for _ns, _tiers in ((1, ('quick', 'thorough')), (2, ('quick', 'thorough')), (3, ('quick', 'thorough')), (4, ('thorough',))):
    for _kid, _entry, _nq, _nt, _what in (
            ('C06.a', 'k_sector_nsmax', 5, 6, 'NeighMoving::_movingSectorNsmax: in every sector exactly the min(count, nsmax) closest candidates keep their sector, the others become -1'),
            ('C06.b', 'k_select', 4, 5, 'NeighMoving::_movingSelect: kept set == cycling over the sectors taking the next-closest of each non-exhausted sector; total kept == min(nmaxi, available); single sector: the nmaxi closest')):
        _b = 'exactly %d candidates among %d samples (arbitrary injective candidate->sample map), strictly increasing arbitrary distances, %d sector(s) with arbitrary sector of each candidate, arbitrary positive nsmax / nmaxi, arbitrary stale work arrays'
        K('%s.%d' % (_kid, _ns), property='C06', engine='symex', harness='C06/select.cpp', entry=_entry,
          tus=['src/Neigh/NeighMoving.cpp'], defines={'all': {'VF_NSECT': _ns}, 'quick': {'VF_NSEL': _nq}, 'thorough': {'VF_NSEL': _nt}}, tiers=_tiers,
          bounds={'quick': _b % (_nq, _nq + 1, _ns), 'thorough': _b % (_nt, _nt + 1, _ns)},
          timeout_ms={'quick': 120000, 'thorough': 900000}, validate={'quick': 30, 'thorough': 60},
          what=_what, out='ties between distances; nsmax <= 0 / nmaxi <= 0 (selection step skipped by the caller / by the function)',
          assumptions=['candidates are listed by strictly increasing distance (what VH::arrangeInPlace establishes; ties excluded by the property)',
                       'candidate sectors lie in [0, nsect) (C06.g), -1 marks a candidate already discarded by the quota step',
                       'nsmax > 0 (the caller _moving tests getNSMax() > 0), nmaxi > 0',
                       'each per-candidate assertion of C06.b is re-used as a lemma (vf_assume of the asserted fact) for the two counting assertions'],
          stubs=_SEL_STUBS)

# ---- C06.g sector index of a candidate
def _atan_opts(symex, z3):
    import math
    from fractions import Fraction
    half_pi = z3.RealVal(Fraction(math.pi) / 2)   # the double the code writes as GV_PI / 2.

    def atan_axioms(f, args, app):
        x = args[0]
        return [z3.Implies(x >= 0, z3.And(app >= 0, app <= half_pi)), z3.Implies(x > 0, app > 0)]
    return {'libm_axioms': {'atan': atan_axioms}}


def _atan_native(x):
    # concrete arguments (translator validation runs): the value the native libm returns
    import math
    from fractions import Fraction
    return Fraction(math.atan(float(x)))


K('C06.g', property='C06', engine='symex', harness='C06/sector.cpp', entry='k_sector_define',
  tus=['src/Neigh/NeighMoving.cpp'], symex_opts=_atan_opts, symex={'libm_exact': {'atan': _atan_native}},
  cxxflags=['-fno-inline'],   # keep the divisions inside the branches that guard them (no hoisting into the harness loop)
  bounds={'quick': 'arbitrary real (dx,dy) != (0,0); nsect = 2..16 (each value)'},
  timeout_ms={'quick': 120000, 'thorough': 600000}, validate={'quick': 30, 'thorough': 60},
  what='NeighMoving::_movingSectorDefine: result in [0, nsect) in the real-arithmetic reading',
  out='IEEE rounding of 2*pi - atan(.) and of nsect*angle/(2*pi): decided bit-precisely by C06.g.ieee',
  assumptions=['atan is an uninterpreted function with: x >= 0 => 0 <= atan(x) <= GV_PI/2 (as a double), x > 0 => atan(x) > 0',
               'real-arithmetic reading (no rounding)'],
  stubs=['atan: uninterpreted function + range axioms (symex libm_axioms)',
         'NeighMoving object is raw storage: only _nSect is initialised'])

# bit-precise twin of C06.g (suspect S8: 2*pi - atan(tiny) rounds to 2*pi in IEEE arithmetic)
K('C06.g.ieee', property='C06', engine='cbmc', harness='C06/sector.cpp', entry='k_sector_define',
  tus=['src/Neigh/NeighMoving.cpp'], cstubs='C06/atan_stub.c', cxxflags=['-fno-inline'],
  defines={'quick': {'VF_NSECT_LO': 2, 'VF_NSECT_HI': 3}, 'thorough': {'VF_NSECT_LO': 2, 'VF_NSECT_HI': 4}},   # nsect up to 16: cbmc gives no verdict in 1 h
  unwind={'quick': 3, 'thorough': 4}, timeout_s={'quick': 600, 'thorough': 3600},
  bounds={'quick': 'every finite IEEE double pair (dx,dy) != (0,0); nsect = 2..3', 'thorough': 'nsect = 2..4'},
  validate={'quick': 40, 'thorough': 60},
  what='NeighMoving::_movingSectorDefine, IEEE-754 double semantics: result in [0, nsect)',
  out='libm accuracy beyond the stated model of atan',
  assumptions=['atan returns any double with: x >= 0 => 0 <= atan(x) <= fl(pi/2); 0 <= x < 2^-27 => atan(x) == x; x >= 2^-27 => atan(x) >= 2^-28; odd'],
  stubs=['atan: nondeterministic C model harness/C06/atan_stub.c (cbmc build only; native builds use libm)',
         'NeighMoving object is raw storage: only _nSect is initialised'])


# ---- C06.c ball-tree k-nearest-neighbour query on a tree built by the real btree_init
def _fmax(eng, st, args, where):
    import z3
    from fractions import Fraction
    a, b = args
    if isinstance(a, (int, Fraction)) and isinstance(b, (int, Fraction)):
        return max(a, b)
    za = a if isinstance(a, z3.ExprRef) else z3.RealVal(a)
    zb = b if isinstance(b, z3.ExprRef) else z3.RealVal(b)
    return z3.If(za > zb, za, zb)


def _fmin(eng, st, args, where):
    import z3
    from fractions import Fraction
    a, b = args
    if isinstance(a, (int, Fraction)) and isinstance(b, (int, Fraction)):
        return min(a, b)
    za = a if isinstance(a, z3.ExprRef) else z3.RealVal(a)
    zb = b if isinstance(b, z3.ExprRef) else z3.RealVal(b)
    return z3.If(za < zb, za, zb)


def _log2_exact(x):
    # node-count arithmetic of btree_init: arguments are small positive integers; the value is truncated to int
    import math
    from fractions import Fraction
    if x <= 0:
        return None
    return Fraction(math.log2(float(x)))


def _pow_exact(x, y):
    from fractions import Fraction
    if Fraction(y).denominator == 1 and (x != 0 or y >= 0):
        return Fraction(x) ** int(y)
    return None


_TREE_SYMEX = {'overrides': {'fmax': _fmax, 'fmin': _fmin}, 'libm_exact': {'log2': _log2_exact, 'pow': _pow_exact}}
_TREE_STUBS = ['fmax/fmin: exact maximum/minimum of two reals (no NaN)',
               'log2/pow: exact values on the concrete integer arguments of the node-count arithmetic (log2 through the native libm value, truncated by the code)',
               'heap row built by the harness as nheap_init does, with the finite value 4*G*D+1 (above every possible distance) in place of INFINITY']
for _tag, _n, _d, _leaf, _kk, _metric, _nq, _tiers in (
        ('m1', 5, 1, 1, 2, 2, 1, ('quick', 'thorough')),
        ('m2', 4, 2, 1, 2, 2, 1, ('quick', 'thorough')),
        ('m3', 6, 2, 2, 3, 2, 1, ('thorough',)),
        ('m4', 5, 1, 2, 3, 2, 1, ('quick', 'thorough')),
        ('q2', 4, 1, 1, 2, 2, 2, ('quick', 'thorough')),   # two targets: heap rows 0 and 1 (row index vs neighbour index)
        ('q3', 5, 2, 2, 2, 2, 2, ('thorough',)),
        # Euclidean variant ('e1', 3..4 points, 1-D, metric 1): the exact sqrt (r >= 0, r*r == x) makes z3 give up
        # (unknown after 120 s even for 3 points); not registered
        ):
    K('C06.c.' + _tag, property='C06', engine='symex', harness='C06/tree.cpp', entry='k_tree_query',
      tus=['src/Tree/ball_algorithm.cpp', 'src/Tree/neighbors_heap.cpp'],
      defines={'all': {'VF_N': _n, 'VF_D': _d, 'VF_LEAF': _leaf, 'VF_K': _kk, 'VF_METRIC': _metric, 'VF_G': 8, 'VF_NQ': _nq}},
      tiers=_tiers, symex=_TREE_SYMEX,
      bounds={'quick': '%d points and %d target(s) with integer coordinates |v| <= 8 in %d-D (ties and duplicates included), leaf_size %d, k = %d, %s metric' % (
          _n, _nq, _d, _leaf, _kk, 'Manhattan (manhattan_distance)' if _metric == 2 else 'Euclidean (harness function through the dist_function argument)')},
      timeout_ms={'quick': 120000, 'thorough': 900000}, validate={'quick': 30, 'thorough': 60}, validate_doubles='int',
      what='btree_init (+ init_node, recursive_build, find_node_split_dim, partition_node_indices), nheap_load, min_dist, query_depth_first, nheap_push, nheap_largest: after the queries every heap row holds k distinct samples with their true distances and no other sample is closer (== the k smallest distances of the exhaustive search with the same metric)',
      out='the library euclidean_distance (SpacePoint/ASpace machinery); INFINITY as the initial heap content; n > bound; rounding of centroid/radius arithmetic (real-arithmetic reading)',
      assumptions=['real-arithmetic reading of centroid, radius and distance computations', 'k <= number of points'],
      stubs=_TREE_STUBS + (['euclidean metric: harness function sqrt(sum (x1-x2)^2) passed as dist_function'] if _metric == 1 else []))


CLAIMS = {'C06': 'Decided: the selection bookkeeping of the moving neighbourhood over a distance-sorted candidate list (sector quota, cycling selection up to nmaxi), '
                 'the sector index of a candidate (real-arithmetic reading and bit-precise IEEE reading), the ball-tree query (tree built by the real btree_init, Manhattan metric), '
                 'the heap push as an inductive step, and the (distance, index) sort. Not claimed: candidate filtering/distance (C06.h/i), the Euclidean metric through SpacePoint.'}
NOTES = {'C06': 'finding on the current tree (replayed natively): C06.g.ieee NeighMoving::_movingSectorDefine returns nsect (one past the last sector) for dx > 0, dy < 0 with '
                '|dy/dx| below about 4.4e-16, e.g. (dx,dy) = (1,-1e-17): 2*pi - atan(-dy/dx) rounds to 2*pi in IEEE doubles (suspect S8); the value is then used as an index '
                'into _movingNsect/_movingIsect (size nsect) by _movingSelect. The real-arithmetic reading (C06.g) holds.'}


# ---------------------------------------------------------------- C06.i BiTargetCheckDistance::isOK (anisotropic distance test), harness/C06/bidist.cpp
_BID_TUS = ['src/Geometry/BiTargetCheckDistance.cpp', 'src/Geometry/ABiTargetCheck.cpp', 'src/Geometry/GeometryHelper.cpp', 'src/Core/matrix.cpp',
            'src/Basic/VectorHelper.cpp', 'src/Basic/Utilities.cpp', 'src/Basic/AStringable.cpp', 'src/Space/SpacePoint.cpp']
_BID_STUBS = ['the two SpaceTarget objects are raw storage: only _coord (a real VectorDouble of size 2, read by SpacePoint::getCoord) is built']
for _tag, _entry, _rot, _tiers, _btxt, _stubs in tuple(
        ('rot%d' % _ang, 'k_bidist_aniso', 4, ('quick', 'thorough'),
         'anisotropy coefficients k/4 with k = 1..16 (0.25 .. 4), rotation angle %d degrees (exact cos/sin of the real GH::rotationGetSinCos); radius any integer |radius| <= 256' % _ang, [])
        for _ang in (90, 180, 270)) + (
        ('iso', 'k_bidist_iso', 0, ('quick', 'thorough'), 'isotropic checker (no coefficients): radius any half-integer with |radius| <= 128', []),
        ('ani', 'k_bidist_aniso', 0, ('quick', 'thorough'), 'anisotropy coefficients k/4 with k = 1..16 (0.25 .. 4), no angle given; radius any integer |radius| <= 256', []),
        ('rot', 'k_bidist_aniso', 1, ('quick', 'thorough'),
         'anisotropy coefficients k/4 with k = 1..16 (0.25 .. 4), any non-zero rotation angle whose (cos, sin) is ANY pair of reals (in particular every point of the unit circle); radius any integer |radius| <= 256',
         ['GeometryHelper::rotationGetSinCos -> an arbitrary pair of reals (c, s) (the reference uses the same two numbers)']),
        ('rot0', 'k_bidist_aniso', 3, ('quick', 'thorough'),
         'anisotropy coefficients k/4 with k = 1..16 (0.25 .. 4), rotation angle 0 given explicitly (no rotation applied); radius any integer |radius| <= 256', []),
        ('rot35', 'k_bidist_aniso', 2, ('quick', 'thorough'),
         'anisotropy coefficients k/4 with k = 1..16 (0.25 .. 4), rotation (cos, sin) = (3/5, 4/5) as doubles; radius any integer |radius| <= 256',
         ['GeometryHelper::rotationGetSinCos -> (3/5, 4/5) whatever the (non-zero) angle'])):
    K('C06.i.' + _tag, property='C06', engine='symex', harness='C06/bidist.cpp', entry=_entry, tus=_BID_TUS,
      defines={'all': dict({'VF_ROT': _rot, 'VF_G': 64}, **({'VF_ANGLE': _tag[3:] + '.'} if _rot == 4 else {}))}, tiers=_tiers,
      bounds={'quick': '2-D; ' + ('target and sample anywhere on the integer grid |v| <= 64; ' if _tag == 'iso' else 'sample on the integer grid |v| <= 64, target = sample + integer increment |d| <= 128 per axis; ') + _btxt},
      timeout_ms={'quick': 120000, 'thorough': 600000}, validate={'quick': 120, 'thorough': 240}, validate_doubles='int',
      what='BiTargetCheckDistance(radius, coeffs, angles) constructor (with GH::rotationMatrixInPlace / rotation2DMatrixInPlace / rotationGetSinCos, VH::isConstant), '
           'BiTargetCheckDistance::isOK, _calculateDistance, matrix_product_safe, SpacePoint::getCoord: the pair is accepted iff radius >= 0 and '
           'sum_d ((increment component along the d-th rotated axis) / coeff_d)^2 <= radius^2 (the ellipse GH::getEllipse draws for the same parameters); '
           'isotropic case: squared Euclidean distance <= radius^2, getIncr == target - sample',
      out='rounding of the products, the division, the sum and the square root (real-arithmetic reading); 3-D rotations; undefined (TEST) radius or coordinates; '
          'that (cos, sin) is a point of the unit circle (libm)',
      assumptions=['real-arithmetic reading: sqrt is the exact non-negative root'],
      stubs=_BID_STUBS + _stubs)


# ---------------------------------------------------------------- C06.h NeighMoving::getNeigh/_moving candidate loop and glue (harness/C06/moving.cpp; C05.d is the same harness)
_MOV_TUS = ['src/Neigh/NeighMoving.cpp', 'src/Neigh/ANeigh.cpp', 'src/Db/Db.cpp', 'src/Basic/VectorHelper.cpp', 'src/Geometry/BiTargetCheckDistance.cpp',
            'src/Geometry/ABiTargetCheck.cpp', 'src/Geometry/GeometryHelper.cpp', 'src/Basic/AStringable.cpp', 'src/Basic/Utilities.cpp']
_MOV_STUBS = [
    'NeighMoving object is raw storage (no constructor): _dbin, _dbout, _dbgrid (both), _flagSimu, _flagXvalid, _flagKFold, _useBallSearch, _nMini, _nMaxi, _nSect = 1, _nSMax, '
    '_movingInd/_movingDst/_movingIsect/_movingNsect sized as attach() does, _biPtDist, _bipts',
    'the two Db objects are raw storage + the vptr of harness class MovDb; _nech set (read by the real Db::isSampleIndexValid)',
    'Db::getSampleNumber -> VF_NECH; Db::isActive -> symbolic act[iech]',
    'Db::getSampleAsSTInPlace -> loads nothing, remembers which sample sits in T2 (asserts that T1 receives sample iech_out of the output Db)',
    'Db::getLocNumber -> symbolic 0 or 2 for ELoc::Z, 2 for ELoc::SIMU (recognised by address); Db::getZVariable / getLocVariable(SIMU) -> TEST or a grid value per symbolic undefined-pattern tables',
    'ANeigh::_xvalid -> symbolic xv[iech_in]; ASpaceObject::getNDim -> 2; OptDbg::query -> false',
    'BiTargetCheckDistance::isOK -> symbolic in[i] for the sample loaded in T2 and leaves the symbolic distance d[i] in _dist (read by the real getDistance()); the object is built by its real default constructor',
    'two harness subclasses of ABiTargetCheck in _bipts answering symbolic ok1[i], ok2[i]',
    'the three checker stubs also state the property where they are called (a sample that an earlier filter rejects must not be accepted as a candidate) and answer no for such a sample, so that the candidate count stays the one of the entry pattern (concrete allocation sizes in arrangeInPlace); on correctly filtering code they are just the tables',
    'operator new(size_t, nothrow_t) -> nullptr (std::get_temporary_buffer of std::stable_sort: libstdc++ then runs its buffer-less in-place stable sort; same stub as C11.e)',
]
_MOV_ASSUME = ['nmaxi > 0 (documented meaning: maximum number of samples; nmaxi <= 0 disables the selection step)',
               'distances are pairwise distinct non-negative integer-valued reals below 2^22: ties are excluded by the property and _moving deliberately perturbs the k-th '
               'candidate distance by distmax*k*1e-9 (< 1 here), so distances closer than that tolerance count as ties',
               'undefined value is TEST = 1.234e30 (FFFF(x) is x > 1e30 in the NaN-free reading)',
               'single angular sector (sector assignment and quotas: C06.a, C06.b, C06.g); no ball-tree search']
for _n, _tiers in ((3, ('quick', 'thorough')), (4, ('thorough',))):
    K('C06.h.%d' % _n, property='C06', engine='symex', harness='C06/moving.cpp', entries=['k_moving_m%d' % _m for _m in range(1 << _n)], tus=_MOV_TUS,
      defines={'all': {'VF_NECH': _n}}, tiers=_tiers, cxxflags=['-fno-sanitize=vptr'],
      bounds={'quick': 'exactly %d samples in the input Db, every admissibility pattern (one entry per pattern, 2^%d) and for an inadmissible sample every combination of reasons '
                       '(masked, all variables undefined for the Z or SIMU locator with 0 or 2 variables, cross-validation exclusion, two extra pair checkers, distance checker); '
                       'arbitrary nmini, arbitrary nmaxi > 0, arbitrary distinct integer-valued distances in any order; cross-validation and simulation flags arbitrary' % (_n, _n)},
      timeout_ms={'quick': 120000, 'thorough': 600000}, validate={'quick': 30, 'thorough': 60}, validate_doubles='int',
      what='NeighMoving::getNeigh, _moving (candidate loop, nmini tests, tie-breaking perturbation), ANeigh::_discardUndefined + Db::isAllUndefined/isAllUndefinedByType, '
           'VH::arrangeInPlace (orderRanks with std::stable_sort, reorder, copy), _movingSelect, ANeigh::_neighCompress: the returned ranks are exactly the min(nmaxi, n) closest '
           'admissible samples (by increasing rank), the sorted candidate list holds exactly the admissible samples by increasing distance, no masked or all-undefined sample is '
           'returned, and the result is empty when fewer than nmini samples are admissible',
      out='angular sectors (C06.a/b/g); the ball-tree pre-selection; the real distance test (C06.i) and the real cross-validation test (distance_inter / code comparison); '
          'near-ties within the perturbation tolerance',
      assumptions=_MOV_ASSUME, stubs=_MOV_STUBS)

# C06.h / C06.i now exist: extend the claim text (the sentence written before they existed is replaced, nothing else)
CLAIMS['C06'] = CLAIMS['C06'].replace(
    ' Not claimed: candidate filtering/distance (C06.h/i), the Euclidean metric through SpacePoint.',
    ' Also decided: the candidate loop and glue of NeighMoving::getNeigh/_moving over symbolic filter tables (C06.h: exactly the admissible samples, sorted by distance, nmini/nmaxi, '
    'single sector) and the anisotropic distance test BiTargetCheckDistance::isOK in 2-D (C06.i, real-arithmetic reading). Not claimed: the Euclidean metric through SpacePoint, '
    'the ball-tree pre-selection inside _moving, the real cross-validation distance test.')


# ---------------------------------------------------------------- C06.j BiTargetCheckDistance in 3-D (harness/C06/bidist3d.cpp)
_BID3_STUBS = ['the two SpaceTarget objects are raw storage: only _coord (a real VectorDouble of size 3, read by SpacePoint::getCoord) is built']
for _a1, _a2, _a3, _tiers in ((0, 90, 0, ('quick', 'thorough')), (0, 0, 90, ('quick', 'thorough')), (90, 0, 0, ('quick', 'thorough')), (0, 0, 0, ('quick', 'thorough')),
                              (90, 90, 0, ('quick', 'thorough')), (0, 90, 90, ('quick', 'thorough')), (0, 270, 0, ('quick', 'thorough')), (0, 0, 180, ('quick', 'thorough')),
                              (90, 0, 90, ('thorough',)), (90, 90, 90, ('thorough',)), (180, 90, 270, ('thorough',)), (0, 180, 90, ('thorough',))):
    K('C06.j.a%d_%d_%d' % (_a1, _a2, _a3), property='C06', engine='symex', harness='C06/bidist3d.cpp', entry='k_bidist3d', tus=_BID_TUS,
      defines={'all': {'VF_SYMANG': 0, 'VF_A1': _a1, 'VF_A2': _a2, 'VF_A3': _a3, 'VF_G': 32}}, tiers=_tiers,
      bounds={'quick': '3-D; sample on the integer grid |v| <= 32, target = sample + integer increment |d| <= 64 per axis; anisotropy coefficients k/4 with k = 1..16 (0.25 .. 4); '
                       'rotation angles (%d, %d, %d) degrees (exact 0 / +-1 cos/sin of the real GH::rotationGetSinCos); radius any integer |radius| <= 128' % (_a1, _a2, _a3)},
      timeout_ms={'quick': 120000, 'thorough': 600000}, validate={'quick': 120, 'thorough': 240}, validate_doubles='int',
      what='BiTargetCheckDistance(radius, coeffs, angles) constructor in 3-D (with GH::rotationMatrixInPlace / rotation3DMatrixInPlace / rotationGetSinCos, VH::isConstant), '
           'BiTargetCheckDistance::isOK, _calculateDistance, matrix_product_safe, SpacePoint::getCoord: the pair is accepted iff radius >= 0 and '
           'sum_d ((increment component along the d-th axis of the frame turned by angle 1 around oz, angle 2 around the new oy, angle 3 around the new ox) / coeff_d)^2 <= radius^2 '
           '(quarter turns: the reference exchanges components, signs are irrelevant); getFlagRotation() is set iff some angle is non-zero',
      out='rounding of the products, the division, the sum and the square root (real-arithmetic reading); angles that are not multiples of 90 degrees (only the rotation flag: C06.j.flag*); '
          'undefined (TEST) radius or coordinates',
      assumptions=['real-arithmetic reading: sqrt is the exact non-negative root'],
      stubs=_BID3_STUBS)
for _nang in (1, 2, 3):
    K('C06.j.flag%d' % _nang, property='C06', engine='symex', harness='C06/bidist3d.cpp', entry='k_flag3d', tus=_BID_TUS,
      defines={'all': {'VF_SYMANG': 1, 'VF_NANG': _nang}}, tiers=('quick', 'thorough'),
      bounds={'quick': '3-D (three coefficients k/4, k = 1..16); %d angle(s) given, each an arbitrary real (zero included); radius any integer |radius| <= 128' % _nang},
      timeout_ms={'quick': 120000, 'thorough': 600000}, validate={'quick': 60, 'thorough': 120},
      what='BiTargetCheckDistance(radius, coeffs, angles) constructor in 3-D (VH::isConstant, GH::rotationMatrixInPlace / rotation3DMatrixInPlace): '
           'getFlagRotation() (the switch that makes _calculateDistance use the rotated frame) is set iff ANY of the given angles is non-zero; ndim == 3; anisotropy flag set',
      out='the content of the rotation matrix for arbitrary angles (libm cos/sin); the distance test itself (C06.j.a*)',
      assumptions=[],
      stubs=['GeometryHelper::rotationGetSinCos -> an arbitrary pair of reals per call (the flag must not depend on them)'])

CLAIMS['C06'] = CLAIMS['C06'].replace(
    'BiTargetCheckDistance::isOK in 2-D (C06.i, real-arithmetic reading).',
    'BiTargetCheckDistance::isOK in 2-D (C06.i, real-arithmetic reading) and in 3-D for rotation angles that are multiples of 90 degrees, with the rotation switch decided for arbitrary angles (C06.j).')
