from kernels import K

# ---------------------------------------------------------------- C06
K('C06.e', engine='symex', harness='C06/sort.cpp', entry='k_sort', tus=['src/Tree/neighbors_heap.cpp'],
  defines={'quick': {'VF_N': 6}, 'thorough': {'VF_N': 8}},
  bounds={'quick': 'size 0..6, arbitrary distinct-or-equal finite distances', 'thorough': 'size 0..8'},
  validate={'quick': 30, 'thorough': 60},
  what='simultaneous_sort/dual_swap (neighbors_heap.cpp): output ascending, (dist,idx) pairs stay a permutation; full recursion executed',
  out='NaN distances; sizes above the bound',
  assumptions=['distances are finite reals (comparison-only code: the real reading is exact for finite doubles)'])
