from kernels import K

# ---------------------------------------------------------------- C06
K('C06.e', engine='symex', harness='C06/sort.cpp', entry='k_sort', tus=['src/Tree/neighbors_heap.cpp'],
  defines={'quick': {'VF_N': 6}, 'thorough': {'VF_N': 8}},
  bounds={'quick': 'size 0..6, arbitrary distinct-or-equal finite distances', 'thorough': 'size 0..8'},
  validate={'quick': 30, 'thorough': 60},
  what='simultaneous_sort/dual_swap (neighbors_heap.cpp): output ascending, (dist,idx) pairs stay a permutation; full recursion executed',
  out='NaN distances; sizes above the bound',
  assumptions=['distances are finite reals (comparison-only code: the real reading is exact for finite doubles)'])

# ---- C06.d nheap_push, inductive step from an arbitrary max-heap row
for _k in (1, 2, 3, 4, 5):
    K('C06.d.%d' % _k, property='C06', engine='symex', harness='C06/heap.cpp', entry='k_heap_push',
      tus=['src/Tree/neighbors_heap.cpp'], defines={'all': {'VF_K': _k}},
      bounds={'quick': 'heap row of exactly %d (distance, index) pairs: arbitrary finite distances satisfying the max-heap invariant, arbitrary int indices; arbitrary pushed pair' % _k},
      timeout_ms={'quick': 60000, 'thorough': 300000}, validate={'quick': 30, 'thorough': 60},
      what='nheap_push (neighbors_heap.cpp): max-heap invariant preserved; pair multiset = old minus root plus new when new < max, unchanged when new > max',
      out='INFINITY entries of a freshly initialised heap (comparison-only code: +inf behaves as a largest value); NaN; ties new == max checked on distances only',
      assumptions=['distances are finite reals (comparison-only code: the real reading is exact for finite doubles)',
                   'pre-state: any row with d[(i-1)/2] >= d[i] (the representation invariant of the heap)'],
      stubs=[])

# ---- C06.a / C06.b sector quota and nmaxi selection over the distance-sorted candidate list
_SEL_STUBS = ['NeighMoving object is raw storage (no constructor): _nSect, _nSMax, _nMaxi, _movingInd, _movingDst, _movingIsect, _movingNsect initialised by the harness exactly as attach()/_moving() size and fill them']
for _ns, _nsel, _tiers in ((1, 5, ('quick', 'thorough')), (2, 5, ('quick', 'thorough')), (3, 5, ('quick', 'thorough')),
                           (4, 7, ('thorough',))):
    for _kid, _entry, _what in (
            ('C06.a', 'k_sector_nsmax', 'NeighMoving::_movingSectorNsmax: in every sector exactly the min(count, nsmax) closest candidates keep their sector, the others become -1'),
            ('C06.b', 'k_select', 'NeighMoving::_movingSelect: kept set == cycling over the sectors taking the next-closest of each non-exhausted sector; total kept == min(nmaxi, available); single sector: the nmaxi closest')):
        K('%s.%d' % (_kid, _ns), property='C06', engine='symex', harness='C06/select.cpp', entry=_entry,
          tus=['src/Neigh/NeighMoving.cpp'], defines={'all': {'VF_NSECT': _ns, 'VF_NSEL': _nsel}}, tiers=_tiers,
          bounds={'quick': 'exactly %d candidates among %d samples (arbitrary injective candidate->sample map), strictly increasing arbitrary distances, %d sector(s) with arbitrary sector of each candidate, arbitrary positive nsmax / nmaxi, arbitrary stale work arrays' % (_nsel, _nsel + 1, _ns)},
          timeout_ms={'quick': 120000, 'thorough': 900000}, validate={'quick': 30, 'thorough': 60},
          what=_what, out='ties between distances; nsmax <= 0 / nmaxi <= 0 (selection step skipped by the caller / by the function)',
          assumptions=['candidates are listed by strictly increasing distance (what VH::arrangeInPlace establishes; ties excluded by the property)',
                       'candidate sectors lie in [0, nsect) (C06.g), -1 marks a discarded candidate',
                       'nsmax > 0 (the caller _moving tests getNSMax() > 0), nmaxi > 0'],
          stubs=_SEL_STUBS)
