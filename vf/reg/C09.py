from kernels import K

# ---------------------------------------------------------------- C09  loaders fail cleanly
_STREAM_STUBS = [
    'solver build only (the native build runs the real libstdc++ / gslSafeGetline / trim on the same file as text in a std::istringstream):',
    'std::string default ctor, ctor(const char*), dtor, operator=(string&&), clear, empty, operator[], c_str, operator==(string, const char*): '
    'descriptors EMPTY / LINE(l, first token) / TOKEN(l,t) / LITERAL overlaid on the string object',
    'trim(const String&, const String&): identity (lines of the abstract file are trimmed, tokens separated by single blanks)',
    'gslSafeGetline(istream&, String&): rest of the current line, next line; after the last line: empty string + eofbit',
    'std::basic_ios::good / eof: eof / fail flags kept at (stream + 128); fake vtable giving the virtual-base offset 128',
    'std::stringstream ctor(const string&, openmode) / dtor: cursor over a LINE or TOKEN descriptor',
    'operator>>(istream&, string&): next token (eofbit on the last of a line stream), none: failbit|eofbit, string untouched; on the file stream: next token across lines',
    'istream::operator>>(double&) / (int&): NUM token: its value; anything else: 0 + failbit (+ eofbit when nothing is left)',
    'std::allocator<char> ctor / dtor: empty',
    'harness reaches the real readers through plain-C wrappers (harness/C09/inst.cpp, compiled as a translation unit of its own)',
]
_STREAM_ASSUME = [
    'the file is any sequence of at most VF_NLINES lines of at most VF_NTOK tokens, token classes: integer-valued number |v|<=999, NA, '
    'a non-numeric word, a word starting with #; byte-level lexing (partial numbers such as "1.5abc", overlong numbers, blanks, CR) is outside',
    'reader templates compiled out of line (-fno-inline) so that the real counting/indexing logic is executed and only its iostream callees are abstract',
]
_RV_TUS = ['/verif/harness/C09/inst.cpp', 'src/Basic/File.cpp', 'src/Basic/String.cpp']
for _name, _entry, _what in (('a.double', 'k_readvec_double', '_recordReadVec<double>'), ('a.int', 'k_readvec_int', '_recordReadVec<int>'),
                             ('b.inplace', 'k_readvec_inplace', '_recordReadVecInPlace<double>')):
    for _nv, _tiers in ((1, ('quick', 'thorough')), (2, ('quick', 'thorough')), (3, ('thorough',))):
        K('C09.%s.%d' % (_name, _nv), property='C09', engine='symex', harness='C09/readvec.cpp', entry=_entry, tus=_RV_TUS,
          defines={'all': {'VF_NVALUES': _nv, 'VF_NLINES': 2}}, tiers=_tiers, cxxflags=['-fno-inline'],
          bounds={'quick': 'nvalues = %d; file of 0..2 lines, 0..%d tokens per line, every token class' % (_nv, _nv + 2)},
          timeout_ms={'quick': 60000, 'thorough': 300000}, validate={'quick': 40, 'thorough': 80}, validate_doubles='int',
          what='REAL ASerializable::%s on an arbitrary token file: no store outside the nvalues entries of the vector; true return => '
               'the vector holds nvalues entries which are the values of the first data line' % _what,
          out='lexing inside libstdc++, stream failures other than end of file, memory exhaustion',
          assumptions=_STREAM_ASSUME, stubs=_STREAM_STUBS)

for _nv, _tiers in ((1, ('quick', 'thorough')), (2, ('quick', 'thorough')), (3, ('thorough',))):
    K('C09.d.tableread.%d' % _nv, property='C09', engine='symex', harness='C09/readvec.cpp', entry='k_tableread',
      tus=_RV_TUS + ['src/Basic/ASerializable.cpp'],
      defines={'all': {'VF_NVALUES': _nv, 'VF_NLINES': 2}}, tiers=_tiers, cxxflags=['-fno-inline'],
      bounds={'quick': 'ntab = %d; file of 0..2 lines, 0..%d tokens per line, every token class' % (_nv, _nv + 2)},
      timeout_ms={'quick': 60000, 'thorough': 300000}, validate={'quick': 40, 'thorough': 80}, validate_doubles='int',
      what='REAL ASerializable::_tableRead over the REAL _recordReadVec<double> on an arbitrary token file: a failing inner read is propagated '
           '(true return => the data line held exactly ntab values and they are the ones stored in tab); no store outside the buffers',
      out='lexing inside libstdc++, stream failures other than end of file, memory exhaustion',
      assumptions=_STREAM_ASSUME, stubs=_STREAM_STUBS)

for _name, _entry in (('double', 'k_read_double'), ('int', 'k_read_int')):
    K('C09.c.read.' + _name, property='C09', engine='symex', harness='C09/readvec.cpp', entry=_entry, tus=_RV_TUS,
      defines={'all': {'VF_NVALUES': 1, 'VF_NLINES': 3, 'VF_NTOK': 2}, 'thorough': {'VF_NLINES': 3, 'VF_NTOK': 3}}, cxxflags=['-fno-inline'],
      bounds={'quick': 'file of 0..3 lines, 0..2 tokens per line, every token class', 'thorough': 'file of 0..3 lines, 0..3 tokens per line'},
      timeout_ms={'quick': 60000, 'thorough': 300000}, validate={'quick': 40, 'thorough': 80}, validate_doubles='int',
      what='REAL ASerializable::_recordRead<%s> on an arbitrary token file: terminates; true return => the value is the first word that is '
           'not a comment (number: its value, NA: the NA value) or the default value at end of file; a non-numeric word gives false' % _name,
      out='lexing inside libstdc++ (words such as "12abc"), stream failures other than end of file',
      assumptions=_STREAM_ASSUME, stubs=_STREAM_STUBS)

_GRID_TUS = ['src/Db/DbGrid.cpp', 'src/Db/Db.cpp', 'src/Basic/Grid.cpp', 'src/Basic/Rotation.cpp', 'src/Geometry/GeometryHelper.cpp',
             'src/Matrix/MatrixSquareGeneral.cpp', 'src/Matrix/AMatrixSquare.cpp', 'src/Matrix/MatrixRectangular.cpp',
             'src/Matrix/AMatrixDense.cpp', 'src/Matrix/AMatrix.cpp', 'src/Basic/AStringable.cpp', 'src/Basic/ASerializable.cpp',
             'src/Basic/Utilities.cpp', 'src/Basic/VectorHelper.cpp']
_SKEL_STUBS = [
    'ASerializable::_recordRead<int>, _recordRead<double>: k-th call yields the k-th pre-drawn arbitrary value, or fails (pre-drawn flag)',
    'Db::_deserialize: arbitrary success / failure (column part of the file outside the kernel); Db::_serialize: true',
    'Db::_clear: empty (locator tables not built: the ELoc enumeration needs static constructors)',
    'strlen (solver build only): byte loop (String temporaries built from title literals are executed)',
    'std::istream argument: reference to raw storage, never dereferenced',
    'messerr: empty',
]


def _cos_native(x):
    import math
    from fractions import Fraction
    return Fraction(math.cos(float(x)))


def _sin_native(x):
    import math
    from fractions import Fraction
    return Fraction(math.sin(float(x)))


K('C09.f.dbgrid.counts', property='C09', engine='symex', harness='C09/dbgrid_skel.cpp', entry='k_dbgrid_counts', tus=_GRID_TUS,
  defines={'all': {'VF_NDIM': 2, 'VF_COUNTS': 1}},
  bounds={'quick': 'space dimension read from the file: arbitrary int; kernel stops at the first vector sizing'},
  timeout_ms={'quick': 60000, 'thorough': 300000}, validate={'quick': 20, 'thorough': 40}, validate_doubles='dyadic',
  what='DbGrid::_deserialize up to its first vector sizing: the count read from the file must be range-checked (a negative count '
       'converted to size_t makes std::vector::resize throw std::length_error, which nothing catches up to createFromNF)',
  out='plausibility of large positive counts (memory exhaustion); the Db part',
  assumptions=['the dimension record itself is read successfully'],
  stubs=_SKEL_STUBS + ['VectorT<int>::resize, VectorT<double>::resize: probe asserting the requested count <= INT_MAX, then stops the kernel (harness exception)'])
K('C09.f.dbgrid.skeleton', property='C09', engine='symex', harness='C09/dbgrid_skel.cpp', entry='k_dbgrid_skeleton', tus=_GRID_TUS,
  defines={'all': {'VF_NDIM': 2, 'VF_COUNTS': 0}}, symex={'libm_exact': {'cos': _cos_native, 'sin': _sin_native}},
  bounds={'quick': 'file announcing 2 dimensions; every other record an arbitrary int / real or a read failure; Db part succeeds or fails'},
  timeout_ms={'quick': 60000, 'thorough': 300000}, validate={'quick': 20, 'thorough': 40}, validate_doubles='dyadic',
  what='DbGrid::_deserialize control skeleton (with DbGrid::gridDefine, Grid::resetFromVector, Rotation::setAngles): a true return means '
       'every record was read, the Db part was loaded, and the grid satisfies the checks of gridDefine (NX >= 0, DX >= 0)',
  out='the Db part itself (Db::_deserialize), the text layer, other dimensions',
  assumptions=['the space dimension announced by the file is 2 (a valid count); cos/sin uninterpreted'],
  stubs=_SKEL_STUBS)

# ---- C09.f2: Db::_deserialize control skeleton (harness/C09/db_skel.cpp)
_DB_TUS = ['src/Db/Db.cpp', 'src/Enum/Enums.cpp', 'src/Basic/AStringable.cpp', 'src/Basic/ASerializable.cpp']
_DBSKEL_STUBS = [
    'ASerializable::_recordRead<int>: first call the column count, second call the sample count (pre-drawn arbitrary ints), or fails (pre-drawn flag)',
    'ASerializable::_recordReadVec<String>: succeeds (skeleton kernel: nvalues empty strings appended) or fails (pre-drawn flag); string contents outside the kernel',
    'ASerializable::_recordReadVecInPlace<double>: succeeds (skeleton kernel: stores nvalues pre-drawn values through the iterator and advances it) or fails',
    'locatorIdentify: pre-drawn return code 0/1 and index 0..3 per locator, type ELoc::UNKNOWN (decoding itself: C09.g)',
    'Db::resetDims, Db::_loadData(ELoadBy, bool, VectorDouble), Db::setNameByUID, Db::setLocatorByUID: recorders of their arguments',
    'Db::_clear: empty (locator tables not built: the ELoc enumeration needs static constructors)',
    'strlen (solver build only): byte loop (String temporaries built from title literals are executed)',
    'std::istream argument: reference to raw storage, never dereferenced', 'messerr: empty',
]
K('C09.f2.db.counts', property='C09', engine='symex', harness='C09/db_skel.cpp', entry='k_db_counts', tus=_DB_TUS,
  defines={'all': {'VF_COUNTS': 1, 'VF_NCOL': 2, 'VF_NECH': 2}},
  bounds={'quick': 'column and sample counts read from the file: arbitrary ints; every record read may fail; kernel stops at the sizing of the value buffer'},
  timeout_ms={'quick': 60000, 'thorough': 300000}, validate={'quick': 20, 'thorough': 40}, validate_doubles='dyadic',
  what='Db::_deserialize up to the sizing of its value buffer allvalues(nech * ncol): both counts must have been range-checked '
       '(non-negative, product representable in int) before; a true return that sizes nothing must have dimensioned the Db with non-negative counts',
  out='plausibility of large positive counts (memory exhaustion); string contents',
  assumptions=[],
  stubs=_DBSKEL_STUBS + ['VectorT<double>::VectorT(size_type, const double&): probe asserting the range check, then stops the kernel (harness exception)'])
for _nc, _ne, _tiers in ((2, 2, ('quick', 'thorough')), (3, 3, ('thorough',))):
    K('C09.f2.db.skeleton.%dx%d' % (_nc, _ne), property='C09', engine='symex', harness='C09/db_skel.cpp', entry='k_db_skeleton', tus=_DB_TUS,
      defines={'all': {'VF_COUNTS': 0, 'VF_NCOL': _nc, 'VF_NECH': _ne}}, tiers=_tiers,
      bounds={'quick': 'file announcing %d columns and %d samples; every later record read succeeds or fails, every locator is identified or rejected' % (_nc, _ne)},
      timeout_ms={'quick': 60000, 'thorough': 300000}, validate={'quick': 20, 'thorough': 40}, validate_doubles='dyadic',
      what='Db::_deserialize control skeleton: a true return means every record was read, every locator was identified, the Db was dimensioned with the '
           'announced counts, received the ncol*nech values read (sample-major) and every column received its name and its locator index',
      out='the Db primitives themselves (C07), locator decoding (C09.g), the text layer, string contents',
      assumptions=['the counts announced by the file are %d and %d (valid counts)' % (_nc, _ne)],
      stubs=_DBSKEL_STUBS)

# ---- C09.g: locatorIdentify on an arbitrary short string (harness/C09/locid.cpp); real libstdc++ std::string code executed
# pass pipeline without instcombine (as C10.c): instcombine rewrites the 2/4/8-byte memcpy of the string code into integer loads/stores over the characters
_LOCID_PASSES = 'function(sroa,early-cse,simplifycfg),cgscc(inline),function(sroa,early-cse,simplifycfg,adce),globaldce'
_LOCID_STUBS = [
    'solver build only (the native build runs the library enumeration and libc):',
    'ELoc::getIterator, ELocIterator::hasNext / operator* / getValue / toNext, ELoc::fromValue: walk a harness table of 30 ELoc objects '
    'with the values -1..28 in increasing order (the library keeps them in a std::map filled by static constructors, which kernels do not run)',
    'static object ELoc::UNKNOWN: field _value written by the harness (-1)',
    'strlen, memcmp: byte loops; tolower: ASCII; strtol(s, NULL, 10) (what glibc atoi expands to): C-locale model (white space, sign, digits)',
    'std::string::operator=(const char*) (the dead assignment string = STRING_NA of the error path): characters written through the data pointer, '
    'length set (the real code reads the small-string buffer as an integer to get the capacity)',
    'messerr: empty',
]
for _len, _tiers in ((1, ('quick', 'thorough')), (2, ('quick', 'thorough')), (3, ('quick', 'thorough')), (4, ('thorough',)),
                     (5, ('thorough',))):
    K('C09.g.locid.%d' % _len, property='C09', engine='symex', harness='C09/locid.cpp', entry='k_locid',
      tus=['src/Db/PtrGeos.cpp', 'src/Basic/String.cpp', 'src/Enum/Enums.cpp'],
      defines={'all': {'VF_LEN': _len}}, tiers=_tiers, passes=_LOCID_PASSES, cxxflags=['-fno-inline'],
      bounds={'quick': 'locator string of exactly %d characters, each an arbitrary byte 1..127' % _len},
      timeout_ms={'quick': 60000, 'thorough': 300000}, validate={'quick': 40, 'thorough': 80},
      what='REAL locatorIdentify with the real std::string code (copy, compare, size, operator[], assignment) and toLower: returns 0 or 1; '
           'on success the type is UNKNOWN or one of the 29 role types, index >= 0 (0 for unique roles and for UNKNOWN), multiplicity flag 0/1; '
           'a string not starting with a letter is UNKNOWN; every DEF_LOCATOR / character access in bounds',
      out='longer strings, embedded NUL / non-ASCII bytes, numbers that overflow int in atoi, whether the keyword decoded is the one the writer meant',
      assumptions=['characters are bytes 1..127 (a word read from a text file holds no NUL)'],
      stubs=_LOCID_STUBS)

# ---- C09.e: csv_table_read row / column accounting (harness/C09/csv.cpp, wrapper harness/C09/inst_csv.cpp)
_CSV_STUBS = [
    'solver build only (the native build writes the same file as text and runs the real libstdc++ / gslSafeGetline / trim / toDouble):',
    'std::string default ctor, ctor(const char*), dtor, operator=(string&&), empty, c_str, operator==(string, string): descriptors EMPTY / LINE(l) / FIELD(l,t) / LITERAL',
    'trim, trimRight: identity; ASerializable::buildFileName: a literal; CSVformat::getNaString: the literal "NA"',
    'std::ifstream default ctor / open / is_open (true) / dtor, skipBOM (nothing: no byte-order mark); basic_ios::eof / operator bool: flags kept at (stream + 128), fake vtable',
    'gslSafeGetline(istream&, String&): next line; after the last line: empty string + eofbit',
    'std::istringstream ctor(const string&, openmode) / dtor: cursor over a LINE descriptor',
    'std::getline(istream&, string&, char): next field of the line (eofbit with the last one); nothing left: string erased, failbit|eofbit; stream not good: failbit, string untouched',
    'toDouble(const String&, char): a number gives its value, anything else TEST',
    'VectorT<String>::clear / push_back / size: counter of names; VectorT<double>::clear / push_back(const double&&) / size / operator[] const: harness array of values',
    'std::allocator<char> ctor / dtor: empty; CSVformat object: raw storage holding the five fields read (separator ",", decimal ".", NA string "NA")',
    'harness reaches the real function through a plain-C wrapper (harness/C09/inst_csv.cpp, compiled as a translation unit of its own)',
]
_CSV_ASSUME = [
    'the file is any sequence of at most VF_NLINES lines of at most VF_NTOK fields (0 fields = empty line) separated by ",", ending with a line break; '
    'field classes: integer-valued number |v|<=999, NA, a non-numeric word; byte-level lexing (quotes, blanks, CR, empty fields, trailing separators, '
    'byte-order mark, files shorter than 3 bytes) is outside',
    'flag_header 0/1, nskip 0/1, ncol_max in -1..VF_NTOK, nrow_max in -1..VF_NLINES, verbose 0',
    'csv_table_read compiled out of line (-fno-inline) so that its real counting logic is executed and only its iostream / string callees are abstract',
]
for _name, _rect, _what in (
        ('ragged', 0, 'REAL csv_table_read on an arbitrary (ragged) file: at a successful return tab.size() == ncol * nrow (what Db::resetFromCSV assumes when it '
                      'dimensions and loads the Db), counts non-negative, a header names exactly ncol columns'),
        ('rect', 1, 'REAL csv_table_read on a rectangular file (every non-empty data line holds at least ncol fields): tab.size() == ncol * nrow, a header names '
                    'exactly ncol columns, the values stored are the first ncol fields of the non-empty data lines in row order (NA / non-numeric: TEST)')):
    for _nl, _nt, _tiers in ((3, 3, ('quick', 'thorough')), (4, 3, ('thorough',))):
        K('C09.e.csv.%s.%d' % (_name, _nl), property='C09', engine='symex', harness='C09/csv.cpp', entry='k_csv',
          tus=['/verif/harness/C09/inst_csv.cpp', 'src/Core/convert.cpp'],
          defines={'all': {'VF_NLINES': _nl, 'VF_NTOK': _nt, 'VF_RECT': _rect}}, tiers=_tiers, cxxflags=['-fno-inline'],
          bounds={'quick': 'file of 0..%d lines (header included), 0..%d fields per line, every field class; header 0/1, nskip 0/1, ncol_max -1..%d, nrow_max -1..%d'
                           % (_nl, _nt, _nt, _nl)},
          timeout_ms={'quick': 60000, 'thorough': 300000}, validate={'quick': 40, 'thorough': 80}, validate_doubles='int',
          what=_what, out='lexing inside libstdc++, file open failure, the Db construction that follows (Db::resetFromCSV)',
          assumptions=_CSV_ASSUME, stubs=_CSV_STUBS)


# ---- C09.h (builder3): BMP reader, header fields and colour table under an arbitrary file content
K('C09.h.bmp', property='C09', engine='symex', harness='C09/bmp.cpp', entry='k_bmp_header',
  tus=['src/OutputFormat/GridBmp.cpp', 'src/OutputFormat/AOF.cpp'], defines={'all': {'VF_NCOLMAX': 300}},
  bounds={'quick': 'every header field an arbitrary int, except: colour count <= 300 (any negative value), compression field != 0 (the file is then refused right after the colour table); palette bytes arbitrary'},
  timeout_ms={'quick': 60000, 'thorough': 300000}, validate={'quick': 30, 'thorough': 60},
  what='GridBmp::readGridFromFile from the first header field to the end of the colour table: the 15 header fields are read in order before anything else; a colour count above 256 is refused before any '
       'palette byte is read, otherwise 4 bytes per colour are read into ir/ig/ib[256] (every store carries the in-bounds obligation of the engine); the refused file gives a null grid',
  out='the image part (allocation of nx*ny values from header fields: sizes must be concrete for the engine; palette look-up ir[c] for a pixel byte c >= colour count reads an entry that was never filled); '
      'GridBmp::_compose itself (little-endian composition: a 4-byte field with a top byte >= 128 overflows the int accumulation value += c * factor, and factor *= 0x100 overflows after the 4th byte: '
      'signed overflow, benign on the usual targets); end of file inside the header (fgetc gives EOF, read as byte 255); colour counts above 300',
  assumptions=['GridBmp object is raw storage (only _file = null is set): the reader touches nothing else once the helpers are overridden'],
  stubs=['GridBmp::_compose(nb) -> k-th call returns the arbitrary int H[k] (nb must be 2 or 4, at most 15 calls: counted)', 'GridBmp::_readIn() -> an arbitrary byte (one symbolic value), calls counted',
         'AOF::_fileReadOpen -> 0, AOF::_fileClose -> nothing', 'messerr / message -> empty'])
