from kernels import K

# ---------------------------------------------------------------- C09  loaders fail cleanly
_STREAM_STUBS = [
    'solver build only (the native build runs the real libstdc++ / gslSafeGetline / trim on the same file as text in a std::istringstream):',
    'std::string default ctor, ctor(const char*), dtor, operator=(string&&), clear, empty, operator[], c_str, operator==(string, const char*): '
    'descriptors EMPTY / LINE(l, first token) / TOKEN(l,t) / LITERAL overlaid on the string object',
    'trim(const String&, const String&): identity (lines of the abstract file are trimmed, tokens separated by single blanks)',
    'gslSafeGetline(istream&, String&): rest of the current line, next line; after the last line: empty string + eofbit',
    'std::basic_ios::good / eof: eof / fail flags kept at (stream + 128); fake vtable giving the virtual-base offset 128',
    'std::stringstream ctor(const string&, openmode) / dtor: cursor over a LINE or TOKEN descriptor',
    'operator>>(istream&, string&): next token (eofbit on the last of a line stream), none: failbit|eofbit, string untouched; on the file stream: next token across lines',
    'istream::operator>>(double&) / (int&): NUM token: its value; anything else: 0 + failbit (+ eofbit when nothing is left)',
    'std::allocator<char> ctor / dtor: empty',
    'harness reaches the real readers through plain-C wrappers (harness/C09/inst.cpp, compiled as a translation unit of its own)',
]
_STREAM_ASSUME = [
    'the file is any sequence of at most VF_NLINES lines of at most VF_NTOK tokens, token classes: integer-valued number |v|<=999, NA, '
    'a non-numeric word, a word starting with #; byte-level lexing (partial numbers such as "1.5abc", overlong numbers, blanks, CR) is outside',
    'reader templates compiled out of line (-fno-inline) so that the real counting/indexing logic is executed and only its iostream callees are abstract',
]
_RV_TUS = ['/verif/harness/C09/inst.cpp', 'src/Basic/File.cpp', 'src/Basic/String.cpp']
for _name, _entry, _what in (('a.double', 'k_readvec_double', '_recordReadVec<double>'), ('a.int', 'k_readvec_int', '_recordReadVec<int>'),
                             ('b.inplace', 'k_readvec_inplace', '_recordReadVecInPlace<double>')):
    for _nv, _tiers in ((1, ('quick', 'thorough')), (2, ('quick', 'thorough')), (3, ('thorough',))):
        K('C09.%s.%d' % (_name, _nv), property='C09', engine='symex', harness='C09/readvec.cpp', entry=_entry, tus=_RV_TUS,
          defines={'all': {'VF_NVALUES': _nv, 'VF_NLINES': 2}}, tiers=_tiers, cxxflags=['-fno-inline'],
          bounds={'quick': 'nvalues = %d; file of 0..2 lines, 0..%d tokens per line, every token class' % (_nv, _nv + 2)},
          timeout_ms={'quick': 60000, 'thorough': 300000}, validate={'quick': 40, 'thorough': 80}, validate_doubles='int',
          what='REAL ASerializable::%s on an arbitrary token file: no store outside the nvalues entries of the vector; true return => '
               'the vector holds nvalues entries which are the values of the first data line' % _what,
          out='lexing inside libstdc++, stream failures other than end of file, memory exhaustion',
          assumptions=_STREAM_ASSUME, stubs=_STREAM_STUBS)

for _nv, _tiers in ((1, ('quick', 'thorough')), (2, ('quick', 'thorough')), (3, ('thorough',))):
    K('C09.d.tableread.%d' % _nv, property='C09', engine='symex', harness='C09/readvec.cpp', entry='k_tableread',
      tus=_RV_TUS + ['src/Basic/ASerializable.cpp'],
      defines={'all': {'VF_NVALUES': _nv, 'VF_NLINES': 2}}, tiers=_tiers, cxxflags=['-fno-inline'],
      bounds={'quick': 'ntab = %d; file of 0..2 lines, 0..%d tokens per line, every token class' % (_nv, _nv + 2)},
      timeout_ms={'quick': 60000, 'thorough': 300000}, validate={'quick': 40, 'thorough': 80}, validate_doubles='int',
      what='REAL ASerializable::_tableRead over the REAL _recordReadVec<double> on an arbitrary token file: a failing inner read is propagated '
           '(true return => the data line held exactly ntab values and they are the ones stored in tab); no store outside the buffers',
      out='lexing inside libstdc++, stream failures other than end of file, memory exhaustion',
      assumptions=_STREAM_ASSUME, stubs=_STREAM_STUBS)

for _name, _entry in (('double', 'k_read_double'), ('int', 'k_read_int')):
    K('C09.c.read.' + _name, property='C09', engine='symex', harness='C09/readvec.cpp', entry=_entry, tus=_RV_TUS,
      defines={'all': {'VF_NVALUES': 1, 'VF_NLINES': 3, 'VF_NTOK': 2}, 'thorough': {'VF_NLINES': 3, 'VF_NTOK': 3}}, cxxflags=['-fno-inline'],
      bounds={'quick': 'file of 0..3 lines, 0..2 tokens per line, every token class', 'thorough': 'file of 0..3 lines, 0..3 tokens per line'},
      timeout_ms={'quick': 60000, 'thorough': 300000}, validate={'quick': 40, 'thorough': 80}, validate_doubles='int',
      what='REAL ASerializable::_recordRead<%s> on an arbitrary token file: terminates; true return => the value is the first word that is '
           'not a comment (number: its value, NA: the NA value) or the default value at end of file; a non-numeric word gives false' % _name,
      out='lexing inside libstdc++ (words such as "12abc"), stream failures other than end of file',
      assumptions=_STREAM_ASSUME, stubs=_STREAM_STUBS)

_GRID_TUS = ['src/Db/DbGrid.cpp', 'src/Db/Db.cpp', 'src/Basic/Grid.cpp', 'src/Basic/Rotation.cpp', 'src/Geometry/GeometryHelper.cpp',
             'src/Matrix/MatrixSquareGeneral.cpp', 'src/Matrix/AMatrixSquare.cpp', 'src/Matrix/MatrixRectangular.cpp',
             'src/Matrix/AMatrixDense.cpp', 'src/Matrix/AMatrix.cpp', 'src/Basic/AStringable.cpp', 'src/Basic/ASerializable.cpp',
             'src/Basic/Utilities.cpp', 'src/Basic/VectorHelper.cpp']
_SKEL_STUBS = [
    'ASerializable::_recordRead<int>, _recordRead<double>: k-th call yields the k-th pre-drawn arbitrary value, or fails (pre-drawn flag)',
    'Db::_deserialize: arbitrary success / failure (column part of the file outside the kernel); Db::_serialize: true',
    'Db::_clear: empty (locator tables not built: the ELoc enumeration needs static constructors)',
    'strlen (solver build only): byte loop (String temporaries built from title literals are executed)',
    'std::istream argument: reference to raw storage, never dereferenced',
    'messerr: empty',
]


def _cos_native(x):
    import math
    from fractions import Fraction
    return Fraction(math.cos(float(x)))


def _sin_native(x):
    import math
    from fractions import Fraction
    return Fraction(math.sin(float(x)))


K('C09.f.dbgrid.counts', property='C09', engine='symex', harness='C09/dbgrid_skel.cpp', entry='k_dbgrid_counts', tus=_GRID_TUS,
  defines={'all': {'VF_NDIM': 2, 'VF_COUNTS': 1}},
  bounds={'quick': 'space dimension read from the file: arbitrary int; kernel stops at the first vector sizing'},
  timeout_ms={'quick': 60000, 'thorough': 300000}, validate={'quick': 20, 'thorough': 40}, validate_doubles='dyadic',
  what='DbGrid::_deserialize up to its first vector sizing: the count read from the file must be range-checked (a negative count '
       'converted to size_t makes std::vector::resize throw std::length_error, which nothing catches up to createFromNF)',
  out='plausibility of large positive counts (memory exhaustion); the Db part',
  assumptions=['the dimension record itself is read successfully'],
  stubs=_SKEL_STUBS + ['VectorT<int>::resize, VectorT<double>::resize: probe asserting the requested count <= INT_MAX, then stops the kernel (harness exception)'])
K('C09.f.dbgrid.skeleton', property='C09', engine='symex', harness='C09/dbgrid_skel.cpp', entry='k_dbgrid_skeleton', tus=_GRID_TUS,
  defines={'all': {'VF_NDIM': 2, 'VF_COUNTS': 0}}, symex={'libm_exact': {'cos': _cos_native, 'sin': _sin_native}},
  bounds={'quick': 'file announcing 2 dimensions; every other record an arbitrary int / real or a read failure; Db part succeeds or fails'},
  timeout_ms={'quick': 60000, 'thorough': 300000}, validate={'quick': 20, 'thorough': 40}, validate_doubles='dyadic',
  what='DbGrid::_deserialize control skeleton (with DbGrid::gridDefine, Grid::resetFromVector, Rotation::setAngles): a true return means '
       'every record was read, the Db part was loaded, and the grid satisfies the checks of gridDefine (NX >= 0, DX >= 0)',
  out='the Db part itself (Db::_deserialize), the text layer, other dimensions',
  assumptions=['the space dimension announced by the file is 2 (a valid count); cos/sin uninterpreted'],
  stubs=_SKEL_STUBS)
