from kernels import K

# ---------------------------------------------------------------- C13
_LAW_ASSUME = ['generator style fixed to Random_Old_Style = true (law_set_old_style(true)); the std::mt19937 branch is not executed',
               'real-arithmetic reading of value = mini + (state/20000159)*(maxi-mini): rounding of the three floating operations is outside the claim',
               'mini < maxi (law_uniform documents mini/maxi as minimum/maximum of the interval)']
_LAW = dict(property='C13', engine='symex', harness='C13/law.cpp', tus=['src/Basic/Law.cpp'],
            defines={'all': {'VF_NDRAW': 3, 'VF_SPAN': 2147483647}},
            timeout_ms={'quick': 100000, 'thorough': 600000}, validate={'quick': 30, 'thorough': 60},
            # executions past a signed overflow are reported by the 'ub' obligation and excluded from the later
            # asserts of the same path (the Int encoding and the wrapping machine disagree there)
            symex={'assume_no_ub': True})
K('C13.a.step', entry='k_step',
  bounds={'quick': 'inductive step: every state in (0, 20000159), every real mini < maxi, one draw'},
  what='law_set_random_seed, law_get_random_seed, law_uniform (old-style path): from any state of the invariant no signed overflow in Random_factor*Random_value, new state in (0,20000159), value in (mini,maxi)',
  out='std::mt19937 path; floating rounding of the value',
  assumptions=_LAW_ASSUME, **_LAW)
K('C13.a.seed', entry='k_seed_first_draw',
  bounds={'quick': 'every seed in [1, INT_MAX], every prior state in [1, INT_MAX], every real mini < maxi, first draw after seeding'},
  what='law_set_random_seed then law_uniform: no signed overflow in Random_factor*Random_value, state in (0,20000159), value in (mini,maxi)',
  out='std::mt19937 path; seed <= 0 (behaviour not documented); floating rounding of the value',
  assumptions=_LAW_ASSUME, **_LAW)
K('C13.a.stream', entry='k_same_stream',
  bounds={'quick': 'every seed in [1, INT_MAX], two arbitrary prior states in [1, INT_MAX], first 3 draws and final state'},
  what='law_set_random_seed, law_uniform: same seed => same stream and same final state whatever the prior state',
  out='std::mt19937 path; distinct seeds => distinct streams',
  assumptions=_LAW_ASSUME, **_LAW)
K('C13.b', entry='k_int_uniform',
  bounds={'quick': 'every state in (0, 20000159), every int INT_MIN+2 <= mini <= maxi with maxi - mini + 1 <= INT_MAX'},
  what='law_int_uniform (with law_uniform): result in [mini, maxi], state invariant kept',
  out='std::mt19937 path; floating rounding of state/20000159*number',
  assumptions=_LAW_ASSUME[:2] + ['mini <= maxi and maxi - mini + 1 representable as int; mini >= INT_MIN+2 (compiled form (1-mini)+maxi)'], **_LAW)

_TREES = {1: 'Y1 ; F1 | (Y2 ; F2 | F3)', 2: 'Y1 ; (Y2 ; F1 | F2) | (Y2 ; F3 | F4)', 3: 'Y2 ; (Y1 ; F2 | (Y1 ; F1 | F4)) | F3'}
for _t, _txt in _TREES.items():
    K('C13.d.%d' % _t, property='C13', engine='symex', harness='C13/rule.cpp', entry='k_rule_facies',
      tus=['src/LithoRule/Node.cpp', 'src/LithoRule/Rule.cpp', 'src/Basic/Utilities.cpp'],
      defines={'all': {'VF_TREE': _t}},
      bounds={'quick': 'fixed rule tree %s; every threshold anywhere between the bounds its node inherits (incl. the extremes -10/+10); every (y1,y2) in (-10,10)^2 not lying on a threshold' % _txt},
      timeout_ms={'quick': 100000, 'thorough': 600000}, validate={'quick': 30, 'thorough': 60},
      what='Node::proportionToThresh (box propagation), Node::gaussianToFacies, Rule::getFaciesFromGaussian, get_rule_extreme, FFFF: facies == leaf reached by descending the thresholds; undefined gaussian => 0',
      out='thresholds from proportions (_threshFromPropcum, gaussian cdf, mvndst); points on a threshold; gaussian values beyond +-10 (the library treats +-10 as infinite); other tree shapes; Rule construction from names; gaus2facResult Db plumbing',
      assumptions=['comparison-only code: exact for finite doubles', 'GAUSS_MODE = 1 (its initial value)'],
      stubs=['Node::_threshFromPropcum -> arbitrary threshold within the inherited bounds of the node orientation (TEST for a leaf)',
             'Node::_transform -> identity (only feeds the _cdf* fields, not read by the kernel)'])
