from kernels import K

# ---------------------------------------------------------------- C13
_LAW_ASSUME = ['generator style fixed to Random_Old_Style = true (law_set_old_style(true)); the std::mt19937 branch is not executed',
               'real-arithmetic reading of value = mini + (state/20000159)*(maxi-mini): rounding of the three floating operations is outside the claim',
               'mini < maxi (law_uniform documents mini/maxi as minimum/maximum of the interval)']
_LAW = dict(property='C13', engine='symex', harness='C13/law.cpp', tus=['src/Basic/Law.cpp'],
            defines={'all': {'VF_NDRAW': 3, 'VF_SPAN': 2147483647}},
            timeout_ms={'quick': 100000, 'thorough': 600000}, validate={'quick': 30, 'thorough': 60},
            # executions past a signed overflow are reported by the 'ub' obligation and excluded from the later
            # asserts of the same path (the Int encoding and the wrapping machine disagree there)
            symex={'assume_no_ub': True})
K('C13.a.step', entry='k_step',
  bounds={'quick': 'inductive step: every state in (0, 20000159), every real mini < maxi, one draw'},
  what='law_set_random_seed, law_get_random_seed, law_uniform (old-style path): from any state of the invariant no signed overflow in Random_factor*Random_value, new state in (0,20000159), value in (mini,maxi)',
  out='std::mt19937 path; floating rounding of the value',
  assumptions=_LAW_ASSUME, **_LAW)
K('C13.a.seed', entry='k_seed_first_draw',
  bounds={'quick': 'every seed in [1, INT_MAX], every prior state in [1, INT_MAX], every real mini < maxi, first draw after seeding'},
  what='law_set_random_seed then law_uniform: no signed overflow in Random_factor*Random_value, state in (0,20000159), value in (mini,maxi)',
  out='std::mt19937 path; seed <= 0 (behaviour not documented); floating rounding of the value',
  assumptions=_LAW_ASSUME, **_LAW)
K('C13.a.stream', entry='k_same_stream',
  bounds={'quick': 'every seed in [1, INT_MAX], two arbitrary prior states in [1, INT_MAX], first 3 draws and final state'},
  what='law_set_random_seed, law_uniform: same seed => same stream and same final state whatever the prior state',
  out='std::mt19937 path; distinct seeds => distinct streams',
  assumptions=_LAW_ASSUME, **_LAW)
K('C13.b', entry='k_int_uniform',
  bounds={'quick': 'every state in (0, 20000159), every int INT_MIN+2 <= mini <= maxi with maxi - mini + 1 <= INT_MAX'},
  what='law_int_uniform (with law_uniform): result in [mini, maxi], state invariant kept',
  out='std::mt19937 path; floating rounding of state/20000159*number',
  assumptions=_LAW_ASSUME[:2] + ['mini <= maxi and maxi - mini + 1 representable as int; mini >= INT_MIN+2 (compiled form (1-mini)+maxi)'], **_LAW)

_TREES = {1: 'Y1 ; F1 | (Y2 ; F2 | F3)', 2: 'Y1 ; (Y2 ; F1 | F2) | (Y2 ; F3 | F4)', 3: 'Y2 ; (Y1 ; F2 | (Y1 ; F1 | F4)) | F3'}
for _t, _txt in _TREES.items():
    K('C13.d.%d' % _t, property='C13', engine='symex', harness='C13/rule.cpp', entry='k_rule_facies',
      tus=['src/LithoRule/Node.cpp', 'src/LithoRule/Rule.cpp', 'src/Basic/Utilities.cpp'],
      defines={'all': {'VF_TREE': _t}},
      bounds={'quick': 'fixed rule tree %s; every threshold anywhere between the bounds its node inherits (incl. the extremes -10/+10); every (y1,y2) in (-10,10)^2 not lying on a threshold' % _txt},
      timeout_ms={'quick': 100000, 'thorough': 600000}, validate={'quick': 30, 'thorough': 60},
      what='Node::proportionToThresh (box propagation), Node::gaussianToFacies, Rule::getFaciesFromGaussian, get_rule_extreme, FFFF: facies == leaf reached by descending the thresholds; undefined gaussian => 0',
      out='thresholds from proportions (_threshFromPropcum, gaussian cdf, mvndst); points on a threshold; gaussian values beyond +-10 (the library treats +-10 as infinite); other tree shapes; Rule construction from names; gaus2facResult Db plumbing',
      assumptions=['comparison-only code: exact for finite doubles', 'GAUSS_MODE = 1 (its initial value)'],
      stubs=['Node::_threshFromPropcum -> arbitrary threshold within the inherited bounds of the node orientation (TEST for a leaf)',
             'Node::_transform -> identity (only feeds the _cdf* fields, not read by the kernel)'])


# ---- C13.c law_gaussian_between_bounds: bounded Gaussian draw (exp/log uninterpreted + order axioms)
def _explog_opts(symex, z3):
    """exp / log as uninterpreted functions.  Every axiom is a true statement about the real functions,
    instantiated on the application terms present (each new application is paired with the earlier ones):
      exp(x) > 0;  x < 0 => exp(x) < 1, x > 0 => exp(x) > 1, x == 0 => exp(x) == 1;
      x < y => exp(x) < exp(y)  (strict monotonicity; equality is congruence);
      t < 1 => log(t) < 0, t > 1 => log(t) > 0, t == 1 => log(t) == 0;  s < t => log(s) < log(t)   (for s, t > 0);
      log(exp(y)) == y in its order form: for t > 0, t < exp(y) => log(t) < y, t > exp(y) => log(t) > y, t == exp(y) => log(t) == y."""
    exps, logs = [], []

    def order(x, y, fx, fy):
        return [z3.Implies(x < y, fx < fy), z3.Implies(x > y, fx > fy)]

    def inv(t, lt, y, ey):
        return [z3.Implies(z3.And(t > 0, t < ey), lt < y), z3.Implies(t > ey, lt > y), z3.Implies(t == ey, lt == y)]

    def exp_axioms(f, args, app):
        x = args[0]
        ax = [app > 0, z3.Implies(x < 0, app < 1), z3.Implies(x > 0, app > 1), z3.Implies(x == 0, app == 1)]
        for y, ey in exps:
            ax += order(x, y, app, ey)
        for t, lt in logs:
            ax += inv(t, lt, x, app)
        exps.append((x, app))
        return ax

    def log_axioms(f, args, app):
        t = args[0]
        ax = [z3.Implies(z3.And(t > 0, t < 1), app < 0), z3.Implies(t > 1, app > 0), z3.Implies(t == 1, app == 0)]
        for s, ls in logs:
            ax += [z3.Implies(z3.And(s > 0, s < t), ls < app), z3.Implies(z3.And(t > 0, t < s), app < ls)]
        for y, ey in exps:
            ax += inv(t, app, y, ey)
        logs.append((t, app))
        return ax
    return {'libm_axioms': {'exp': exp_axioms, 'log': log_axioms}}


def _exp_native(x):
    import math
    from fractions import Fraction
    try:
        return Fraction(math.exp(float(x)))   # concrete arguments (validation runs): the value the native libm returns
    except OverflowError:
        return None


def _log_native(x):
    import math
    from fractions import Fraction
    if x < 0:
        return None
    if x == 0:
        return Fraction(-10) ** 300           # stand-in for -inf (only compared with finite values)
    return Fraction(math.log(float(x)))


_GBB_STUBS = ['law_uniform(mini, maxi) -> mini + u*(maxi-mini), u the next element of an array of arbitrary reals in [0,1) drawn up front; '
              'a call beyond the 3*VF_NREJ draws of VF_NREJ rejection iterations ends the path (acceptance assumed by then)',
              'exp/log: uninterpreted functions + order axioms (symex libm_axioms, see _explog_opts); sqrt exact (r >= 0, r*r == x)']
_GBB_ASSUME = ['real-arithmetic reading: no rounding, no underflow of exp (IEEE: exp underflow makes total == 0 and the function returns a sub-interval start, which is in bounds; '
               'a proposal can leave its sub-interval by a rounding error of log(exp(.)): outside the claim)',
               'exp, log: the axioms of _explog_opts, all true of the real functions',
               'the rejection loop carries no state from one iteration to the next (tables written before the loop only), so the value returned is the proposal of an '
               'iteration with arbitrary draws that was accepted (argument by reading the loop body; the two-iteration cross-check VF_NREJ = 2 is beyond the solver)',
               'uniform draws in [0,1) (what law_uniform(0,1) documents)']
for _mode, _mtxt, _mass in ((0, 'both bounds present, arbitrary reals binf < bsup (|.| <= 1e29)', 'binf < bsup'),
                            (1, 'lower bound only (bsup = TEST), arbitrary real binf (|.| <= 1e29)', 'bsup absent'),
                            (2, 'upper bound only (binf = TEST), arbitrary real bsup (|.| <= 1e29)', 'binf absent')):
    # VF_NREJ = 2 (a rejected iteration executed before the accepted one) was tried in the thorough tier: no verdict in 1700-2600 s
    # (C13.c.ab.r2, C13.c.a.r2: one or two of the 64-case assertions stay unknown); not registered
    for _nrej, _tiers in ((1, ('quick', 'thorough')),):
        K('C13.c.%s%s' % (('ab', 'a', 'b')[_mode], '' if _nrej == 1 else '.r2'), property='C13', engine='symex', harness='C13/bounds.cpp', entry='k_between',
          tus=['src/Basic/Law.cpp', 'src/Basic/Utilities.cpp'], defines={'all': {'VF_MODE': _mode, 'VF_NREJ': _nrej}}, tiers=_tiers,
          symex_opts=_explog_opts, symex={'libm_exact': {'exp': _exp_native, 'log': _log_native}},
          bounds={'quick': '%s; %d iteration(s) of the rejection loop with arbitrary uniform draws in [0,1), acceptance assumed by the last' % (_mtxt, _nrej)},
          timeout_ms={'quick': 100000, 'thorough': 600000}, validate={'quick': 30, 'thorough': 60},
          what='law_gaussian_between_bounds (with FFFF): value returned within the bounds present; sub-interval table read in bounds (selection loop stops inside the table: cumulated weights end at total/total)',
          out='termination of the rejection loop; the law of the value; floating rounding / underflow of exp, log, sqrt',
          assumptions=_GBB_ASSUME + [_mass], stubs=_GBB_STUBS)

# ---- C13.e bounds handed to the bounded draw by the multivariate Gibbs samplers
_GIB_DB = 'Db::getLocVariable(const ELoc&, int iech, int item) const -> harness tables of arbitrary lower / upper bounds (TEST = absent) indexed by (sample, item); role recognised by the address of ELoc::L / ELoc::U; any other (role, sample, item) is counted and asserted absent'
for _kind, _cls, _tus, _w in (
        (0, 'GibbsMulti', ['src/Gibbs/GibbsMulti.cpp'], 'GibbsMulti::getSimulate (used by GibbsUMulti and GibbsMMulti)'),
        (1, 'GibbsMultiMono', ['src/Gibbs/GibbsMultiMono.cpp'], 'GibbsMultiMono::getSimulate (used by GibbsUMultiMono and GibbsUPropMono; second variable linked to the first through rho)')):
    K('C13.e.sim.%s' % ('multi' if _kind == 0 else 'mono'), property='C13', engine='symex', harness='C13/gibbs_sim.cpp',
      entries=['k_sim_sel_gs1', 'k_sim_nosel_gs0'], tus=_tus + ['src/Gibbs/AGibbs.cpp', 'src/Basic/Utilities.cpp'],
      defines={'all': {'VF_KIND': _kind}}, symex={'sqrt_memo_sym': True},   # sqrt(1 - rho*rho) of the code and of the reference: one algebraic unknown
      bounds={'quick': '%s::getSimulate, one call: 2 GS x 2 variables, 2 active samples (with arbitrary ranks into a Db of 3 samples / without selection), arbitrary (variable, active sample); arbitrary bounds tables (each bound present or absent, lower <= upper, |.| <= 1e6), mean |.| <= 1e6, st.dev. in [1e-3, 1e3], |rho| <= 0.97, iteration / burn-in arbitrary with the decay finished or off' % _cls},
      timeout_ms={'quick': 100000, 'thorough': 600000}, validate={'quick': 40, 'thorough': 80},
      what=_w + ', AGibbs::getSampleRank, getRank, _getBoundsDecay, FFFF: bounds handed to law_gaussian_between_bounds == (stored bounds of the own (absolute sample, item) - mean)/st.dev., absent stays absent, unbounded draw iff no bound; value = yk + sk*draw; draw within the bounds received => gaussian value within the stored bounds',
      out='the bounded draw itself (C13.c); bounds relaxed on purpose during the burn-in decay; magnitudes for which a centred / scaled bound exceeds 1e30 (read as absent by FFFF); rounding (real-arithmetic reading)',
      assumptions=['real-arithmetic reading', 'stored bounds ordered (lower <= upper) as AGibbs::_boundsCheck requires', 'st.dev. > 0', 'decay off or iteration past the burn-in (the decay widens the bounds on purpose)'],
      stubs=[_GIB_DB, 'law_gaussian_between_bounds(binf, bsup) -> records the bounds received, returns an arbitrary real',
             'law_gaussian(mean, sigma) -> mean + sigma * the same arbitrary real',
             'sampler object is raw storage (getSimulate called non-virtually): _npgs, _nvar, _nburn, _niter, _flagOrder, _flagDecay, _optionStats, _ranks, _db (never dereferenced), _rho initialised by the harness'])

_SW_STUBS = [_GIB_DB, 'GibbsMulti::getSimulate -> records its arguments, returns an arbitrary real (the real one: C13.e.sim.multi)', 'OptDbg::query -> false (no printing)',
             'sampler object is raw storage with the class vtable: _npgs, _nvar, _nburn, _niter, _flagOrder, _flagDecay, _optionStats, _ranks, _db (never dereferenced), _model = null initialised by the harness']
for _kind, _cls, _tus, _extra_stub, _extra_what in (
        (0, 'GibbsUMulti', ['src/Gibbs/GibbsUMulti.cpp'],
         ['GibbsUMulti::_covmat: arbitrary real matrix with positive diagonal (the inverse covariance matrix; its computation is outside)'],
         'GibbsUMulti::update, _getVariance, _getEstimate, _getSize'),
        (1, 'GibbsMMulti', ['src/Gibbs/GibbsMMulti.cpp'],
         ['GibbsMMulti::_getVariableNumber -> nvar; _getWeights -> nothing; _getVariance(icol) -> arbitrary positive value per column; _getEstimate(ipgs, icol, y) -> arbitrary value per column (sparse kriging weights outside); column rank asserted within nvar*nact'],
         'GibbsMMulti::update, _getColumn')):
    for _nvar, _nact, _tiers in ((2, 2, ('quick', 'thorough')), (2, 3, ('thorough',))):
        K('C13.e.%s.%d%d' % ('u' if _kind == 0 else 'm', _nvar, _nact), property='C13', engine='symex', harness='C13/gibbs.cpp', entries=['k_gibbs_gs1', 'k_gibbs_gs0'],
          tus=_tus + ['src/Gibbs/GibbsMulti.cpp', 'src/Gibbs/AGibbs.cpp', 'src/Basic/Utilities.cpp'],
          defines={'all': {'VF_KIND': _kind, 'VF_NVAR': _nvar, 'VF_NACT': _nact, 'VF_NS': 3 if _nact == 2 else 5}}, tiers=_tiers,   # 5, not 4: with two equal power-of-two limits clang fuses the range checks of the Db stub into (iech | item) < 4
          bounds={'quick': '%s, one sweep: 2 GS x %d variables (GS rank 1, then 0), %d active samples mapped by arbitrary ranks into a Db of %d samples; arbitrary bounds tables (each bound present or absent, lower <= upper), arbitrary prior gaussian values, arbitrary inverse covariance matrix with positive diagonal / arbitrary positive variances' % (_cls, _nvar, _nact, 3 if _nact == 2 else 5)},
          timeout_ms={'quick': 100000, 'thorough': 600000}, validate={'quick': 30, 'thorough': 60},
          what=_extra_what + ', AGibbs::getRank, getSampleRank, _getSampleRankNumber, _isConstraintTight, FFFF, isEqual: tight constraint -> the bound, no simulation; otherwise exactly one getSimulate with icase = ivar + nvar*ipgs, the ranks of the (GS, variable, sample) being updated, the conditional mean / st.dev. of its own equation, result stored at y[icase][iact]; other GS untouched',
          out='getSimulate (C13.e.sim.*) and the bounded draw (C13.c); computation of the inverse covariance matrix / sparse weights; statistics (_updateStats, off); rounding of the sums of products',
          assumptions=['real-arithmetic reading', 'stored bounds ordered (lower <= upper) as AGibbs::_boundsCheck requires', 'variance of estimation > 0'],
          stubs=_SW_STUBS + _extra_stub)
