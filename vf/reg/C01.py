from kernels import K

# ---------------------------------------------------------------- C01
# Assembly (flags, LHS, RHS, compression) and read-out (estimate, stdev, varZ) of the kriging system in
# src/Estimation/KrigingSystem.cpp.  The inversion (Eigen) is outside; covariance and drift VALUES are abstract
# (harness tables of symbolic reals behind the model / data base callbacks).
_MATTUS = ['src/Matrix/AMatrix.cpp', 'src/Matrix/AMatrixDense.cpp', 'src/Matrix/AMatrixSquare.cpp',
           'src/Matrix/MatrixSquareSymmetric.cpp', 'src/Matrix/MatrixRectangular.cpp', 'src/Matrix/MatrixSquareGeneral.cpp',
           'src/Basic/AStringable.cpp', 'src/Basic/ASerializable.cpp']
_KSTUS = ['src/Estimation/KrigingSystem.cpp', 'src/Basic/Utilities.cpp', 'src/Basic/VectorHelper.cpp', 'src/Enum/Enums.cpp'] + _MATTUS

_RAW = ('KrigingSystem, the two Db, Model, ACovAnisoList and ANeigh objects are raw storage (no constructor runs); only the fields '
        'the kernels read are initialised; VectorInt / MatrixSquareSymmetric / MatrixRectangular / MatrixSquareGeneral members are '
        'real objects built with placement new (their setValue/getValue/prodMatMatInPlace are the real Eigen-backed code)')
_STUBS_CB = [
    'Db::getZVariable(rank, ivar) -> symbolic table T_z (arbitrary value or TEST)',
    'Db::getLocVariable(ELoc::F | ELoc::V, rank, item) -> symbolic tables T_fext / T_verr (arbitrary value or TEST)',
    'Db::getCoordinate (virtual) -> symbolic table T_coord (arbitrary value or TEST), reached through a harness-built virtual table of the raw Db objects',
    'Db::setArray(target, iuid, value) -> recorded in harness table T_out (with a write counter)',
    'Db::getSampleAsSPInPlace -> no-op (target coordinates are not read by the overridden covariance)',
    'Model::isDriftSampleDefined(ib) -> symbolic boolean table',
    'Model::evalDriftValue(db, rank, ivar, ib) -> symbolic tables T_drift (data) / T_drift0 (target, may be TEST)',
    'CovContext::getMean(ivar) (behind the inline Model::getMean) -> symbolic table T_mean',
    'ACov::evalCovKriging(mat, p1, p2) -> writes cov(rank(p1), rank(p2), iv, jv) from the symbolic table T_cov (T_cov[r1][r2][iv][jv] == T_cov[r2][r1][jv][iv]; '
    'equal to C(0) on the diagonal of a stationary model) or, for a target point, from T_covt',
    'ACov::eval0CovMatBiPointInPlace (virtual, reached from the real _covtab0Calcul through the inline Model::eval0MatInPlace) -> symmetric symbolic C(0) table',
    'ACovAnisoList::isStationary -> symbolic boolean',
    'ACov::updateCovByPoints (virtual), ACov::optimizationSetTarget -> no-op (non-stationary parameter update is outside)',
    'ANeigh::getFlagContinuous (virtual) -> false',
    '__dynamic_cast (solver build only) -> identity: the only casts reached are AMatrix* -> AMatrixDense* on dense matrices (primary base at offset 0)',
]
_ASSUME_SYS = [
    _RAW,
    'options fixed: no linear combination of variables (_flagNoMatLC), no kriging by code profile (_flagCode=false), neighbourhood not continuous, '
    'no Bayesian drift, no simulation, point target (EKrigOpt::POINT), no collocated sample (all neighbourhood ranks >= 0)',
    'neighbourhood = VF_NECH distinct, arbitrarily ordered ranks of an input data base of VF_NECH+1 samples',
    'undefined value is TEST=1.234e30; defined values are reals <= 1e30 (NaN/inf are outside the real reading of double)',
    '_lhsc/_rhsc are allocated at the full size neq and filled with a sentinel (the library sizes them to nred, a symbolic number here); '
    'the kernel proves that every write lands in the leading nred block',
    'pre-state of _flag, _lhsf, _rhsf is arbitrary (stale content of a previous neighbourhood: AMatrix::resize keeps values when the size is unchanged), '
    'except the drift/drift block of _lhsf which nothing ever writes (zero since allocation)',
]


def _sys(ne, nv, nf, tiers):
    neq = ne * nv + nf
    K('C01.sys.%d%d%d' % (ne, nv, nf), property='C01', engine='symex', harness='C01/system.cpp',
      entries=['k_flag', 'k_lhs', 'k_iso', 'k_rhs'], tus=_KSTUS,
      defines={'all': {'VF_NECH': ne, 'VF_NVAR': nv, 'VF_NFEQ': nf, 'VF_NDIM': 2, 'VF_NFEX': 1 if nf else 0}}, tiers=tiers,
      bounds={'quick': 'exactly nech=%d neighbourhood samples, nvar=%d variables, nfeq=%d drift equations (neq=%d), ndim=2, %d external drift; every pattern of '
                       'undefined coordinates / data / external drifts / measurement errors, every flag pattern, every neighbourhood order, every real value of '
                       'covariances, drifts, means and of the stale matrix contents' % (ne, nv, nf, neq, 1 if nf else 0)},
      timeout_ms={'quick': 120000, 'thorough': 900000}, validate={'quick': 20, 'thorough': 40},
      what='C01.a/C05.c KrigingSystem::_flagDefine (+_getIdim/_getIvar/_getFext/_setFlag/_getFLAG), _isAuthorized: flag[i+iv*nech]==1 iff all coordinates, Z(i,iv) and every '
           'external drift of the sample are defined, drift flags, nred, isotopy, authorization; '
           'C01.c _lhsCalcul (+_covtab0Calcul/_setLHSF/_addLHSF/_getLHSF): LHSF[IND(i,iv),IND(j,jv)]==cov(i,j,iv,jv) (+ measurement error variance on the diagonal when defined and >0), '
           'LHSF[IND(i,iv),nvar*nech+ib]==drift(i,iv,ib) and its transpose, zero drift/drift block; '
           'C01.b _lhsIsoToHetero/_rhsIsoToHetero: compressed matrices == rows/cols with flag!=0 in order, nothing written outside the nred block, _lhs/_rhs switched; '
           'C01.d _rhsCalcul (point target: _rhsCalculPoint, _rhsStore, drift part): RHSF[IND(i,iv),jv]==cov(i,target,iv,jv), RHSF[nvar*nech+ib,iv]==drift(target,iv,ib), error iff a target drift is undefined',
      out='inversion/solve (_lhsInvert, _wgtCalcul: Eigen); covariance and drift values (model hierarchy, libm); block / drift / DGM targets, matLC linear combinations, '
          'kriging by code, continuous moving neighbourhood, collocated cokriging, Bayesian and simulation variants; neighbourhood selection (C06)',
      assumptions=_ASSUME_SYS, stubs=_STUBS_CB)


for _ne in (1, 2):
    for _nv in (1, 2):
        for _nf in (0, 1):
            _sys(_ne, _nv, _nf, ('quick', 'thorough'))
for _ne, _nv, _nf in ((3, 1, 0), (3, 1, 1), (2, 1, 2), (3, 2, 1), (2, 2, 2)):
    _sys(_ne, _nv, _nf, ('thorough',))


def _est(nr, nv, nf, tiers):
    K('C01.f.%d%d%d' % (nr, nv, nf), property='C01', engine='symex', harness='C01/estim.cpp', entry='k_estim', tus=_KSTUS,
      defines={'all': {'VF_NRED': nr, 'VF_NVAR': nv, 'VF_NFEQ': nf}}, tiers=tiers,
      bounds={'quick': 'compressed system of exactly nred=%d equations of which nfeq=%d drift equations, nvar=%d right-hand sides; rhs, zam, wgt, var0, means arbitrary reals; '
                       'status 0 (solved) or 1 (failed)' % (nr, nf, nv)},
      timeout_ms={'quick': 120000, 'thorough': 600000}, validate={'quick': 20, 'thorough': 40},
      what='C01.f KrigingSystem::_estimateEstim, _estimateStdv, _estimateVarZ (+_getMean/_getVAR0, AMatrixDense::prodMatMatInPlace = real Eigen product, getColumn, VH::innerProduct): '
           "estimate==mean+rhs'.zam (mean 0 when nfeq>0), stdev>=0 with stdev^2==var0-rhs'.wgt when positive else 0, varZ==sum over covariance rows - sum over drift rows of rhs.wgt, "
           'TEST outputs for a failed system, each output written once',
      out='how rhs/zam/wgt were obtained (solve); rounding of the floating-point products; Bayesian variance correction, non-stationary/per-cell variance update (_variance0), matLC',
      assumptions=[_RAW, 'exact (real) arithmetic reading of the products and of sqrt (r>=0, r*r==x); the stdev equality is stated as a 1e-12 relative bracket so that '
                         'the correctly rounded native value satisfies it too',
                   'matrix products are NOT stubbed: AMatrixDense::prodMatMatInPlace and the Eigen product kernels it instantiates are executed by the engine',
                   'options fixed: _flagBayes=false, _flagNoStat=false, _flagPerCell=false, _flagNoMatLC=true'],
      stubs=[s for s in _STUBS_CB if s.startswith(('Db::setArray', 'CovContext::getMean', '__dynamic_cast'))])


for _nr, _nv, _nf in ((3, 2, 1), (3, 2, 0), (2, 1, 1)):
    _est(_nr, _nv, _nf, ('quick', 'thorough'))
for _nr, _nv, _nf in ((1, 1, 0), (1, 2, 0), (2, 1, 0), (2, 2, 0), (2, 2, 1), (3, 1, 0), (3, 1, 1), (4, 2, 2)):
    _est(_nr, _nv, _nf, ('thorough',))

CLAIMS = {'C01': 'Decided: assembly of the full and compressed kriging system (flags, LHS with measurement error and drift blocks, point RHS) and the read-out of '
                 'estimate / stdev / varZ from a solved system, with covariance and drift values abstract; the linear solve itself is not claimed.'}
NOTES = {'C01': 'The flag kernel (k_flag) also decides clause C05.c (per-equation flags of masked/undefined samples).'}
