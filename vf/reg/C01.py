from kernels import K

# ---------------------------------------------------------------- C01
_MATTUS = ['src/Matrix/AMatrix.cpp', 'src/Matrix/AMatrixDense.cpp', 'src/Matrix/AMatrixSquare.cpp',
           'src/Matrix/MatrixSquareSymmetric.cpp', 'src/Matrix/MatrixRectangular.cpp', 'src/Matrix/MatrixSquareGeneral.cpp',
           'src/Basic/AStringable.cpp', 'src/Basic/ASerializable.cpp']
_KSTUS = ['src/Estimation/KrigingSystem.cpp', 'src/Basic/Utilities.cpp', 'src/Basic/VectorHelper.cpp', 'src/Enum/Enums.cpp'] + _MATTUS

K('C01.a.t', property='C01', engine='symex', harness='C01/system.cpp', entries=['k_flag', 'k_lhs', 'k_iso', 'k_rhs'], tus=_KSTUS,
  defines={'all': {'VF_NECH': 2, 'VF_NVAR': 2, 'VF_NFEQ': 1, 'VF_NDIM': 2, 'VF_NFEX': 1}},
  bounds={'quick': 'probe'}, validate={'quick': 10}, what='probe', out='', assumptions=[], stubs=[])
