from kernels import K

_MATTUS = ['src/Matrix/AMatrix.cpp', 'src/Matrix/AMatrixDense.cpp', 'src/Matrix/AMatrixSquare.cpp',
           'src/Matrix/MatrixSquareSymmetric.cpp', 'src/Matrix/MatrixRectangular.cpp', 'src/Matrix/MatrixSquareGeneral.cpp', 'src/Basic/AStringable.cpp', 'src/Basic/ASerializable.cpp']
K('C01.probe', property='C01', engine='symex', harness='C01/probe.cpp', entry='k_probe', tus=_MATTUS,
  bounds={'quick': 'probe'}, validate={'quick': 3}, what='probe', out='', assumptions=[], stubs=[])
