from kernels import K

# ---------------------------------------------------------------- C10
# C10.c  VectorT / VectorNumT copy-on-write
# pass pipeline without instcombine: instcombine rewrites memmove(dst, src, 8) into an i64 load/store, i.e. reads two ints /
# one double as integer bits, which the typed memory of the symbolic executor (rightly) refuses
_COW_PASSES = 'function(sroa,early-cse,simplifycfg),cgscc(inline),function(sroa,early-cse,simplifycfg,adce),globaldce'
_COW_ASSUME = ['element values are reals (double) / mathematical ints with overflow obligations (int); the members only copy and compare them, '
               'except the VectorNumT arithmetic members which are run on integer-valued content |v| <= 1000',
               'both vectors are VectorNumT<T> objects built by the real constructors (size constructor, copy constructor): use_count == 2 on entry']
for _t, _isint in (('double', 0), ('int', 1)):
    for _n in (0, 1, 2, 3):
        K('C10.c.%s.%d' % (_t, _n), property='C10', engine='symex', harness='C10/cow.cpp', entry='k_cow', tus=[], passes=_COW_PASSES,
          defines={'all': {'VF_INT': _isint, 'VF_N': _n, 'VF_SET': 0}},
          bounds={'quick': 'VectorNumT<%s>, exactly %d elements of arbitrary value, every valid position / count argument; member called on the source and on the copy' % (_t, _n)},
          timeout_ms={'quick': 60000, 'thorough': 600000}, validate={'quick': 10, 'thorough': 30}, validate_doubles='int',
          what='every non-const member of VectorT<T> (operator[], at, setAt, front, back, data, subdata, begin, end, rbegin, rend, clear, reserve, '
               'push_back, push_front, operator<<, insert x3, remove x2, erase x2, resize x2, fill, assign, operator= x4, swap) and of VectorNumT<T> '
               '(add, subtract, multiply) with _detach: called on one of two vectors sharing a buffer, the other keeps size and elements',
          out='VectorNumT::divide (calls libc abs); T other than double/int; more than 3 elements; threads (use_count races); moved-from vectors',
          assumptions=_COW_ASSUME,
          stubs=['throw_exp(msg,file,line): throws an int (real one formats the message through iostream); never reached with valid positions'])
    for _op, _opn in ((0, 'erase(pos)'), (1, 'erase(first,last)'), (2, 'insert(pos,first,last)')):
        K('C10.c.%s.constiter.%d' % (_t, _op), property='C10', engine='symex', harness='C10/cow.cpp', entry='k_cow', tus=[], passes=_COW_PASSES,
          defines={'all': {'VF_INT': _isint, 'VF_N': 2, 'VF_SET': 1, 'VF_OP': _op}},
          bounds={'quick': 'VectorNumT<%s>, exactly 2 elements, %s with pos = cbegin()+i for every valid i' % (_t, _opn)},
          timeout_ms={'quick': 60000, 'thorough': 600000}, validate={'quick': 10, 'thorough': 30}, validate_doubles='int',
          what='VectorT<T>::%s taking const_iterator positions obtained from the const accessors (cbegin/cend) while the buffer is shared: '
               'no undefined operation, the other vector keeps size and elements' % _opn,
          out='as C10.c', assumptions=_COW_ASSUME,
          stubs=['throw_exp(msg,file,line): throws an int'])
    K('C10.c.%s.getVector' % _t, property='C10', engine='symex', harness='C10/cow.cpp', entry='k_cow', tus=[], passes=_COW_PASSES,
      defines={'all': {'VF_INT': _isint, 'VF_N': 2, 'VF_SET': 2}},
      bounds={'quick': 'VectorNumT<%s>, 2 elements, write through getVector() / getVectorPtr()' % _t},
      timeout_ms={'quick': 60000, 'thorough': 600000}, validate={'quick': 10, 'thorough': 30}, validate_doubles='int',
      what='VectorT<T>::getVector() const / getVectorPtr() const return the shared std::vector mutable: a write through them on one vector must not reach its copy',
      out='as C10.c', assumptions=_COW_ASSUME, stubs=['throw_exp(msg,file,line): throws an int'])

# C10.a  KrigingCalcul memo invalidation (shared with C04.b)
_KC_TUS = ['src/Estimation/KrigingCalcul.cpp', 'src/Matrix/AMatrix.cpp', 'src/Matrix/AMatrixDense.cpp', 'src/Matrix/MatrixRectangular.cpp',
           'src/Matrix/AMatrixSquare.cpp', 'src/Matrix/MatrixSquareSymmetric.cpp', 'src/Basic/AStringable.cpp']
K('C10.a', property='C10', engine='symex', harness='C10/kcalc.cpp',
  entries=['k_setData', 'k_setLHS', 'k_setRHS', 'k_setVar', 'k_setColCokUnique', 'k_setBayes', 'k_reset'], tus=_KC_TUS,
  bounds={'quick': 'every null/non-null combination of the 18 memo matrices + _C_RHS/_X_RHS, every empty/non-empty combination of _Zstar/_Beta/_Z0p/_bDual/_cDual, '
                   'every present/absent combination of the 13 input pointers, _neq/_nbfl/_nrhs/_ncck/_nxvalid in [0,3], arbitrary flags; arguments null or objects of fixed small shape'},
  timeout_ms={'quick': 60000, 'thorough': 600000}, validate={'quick': 20, 'thorough': 50},
  what='KrigingCalcul::setData, setLHS, setRHS, setVar, setColCokUnique, setBayes, resetLinkedTo* (7) with the _delete* graph: every memo that transitively depends '
       '(table read from the _need* functions) on an input the call replaced is null/empty afterwards',
  out='setXvalidUnique (matrix algebra); _C_RHS/_X_RHS as functions of Sigma/X; edge rankXvalidVars -> Zstar; values of the matrices',
  assumptions=['KrigingCalcul object built by its constructor, then every field overwritten with the arbitrary pre-state',
               'memo objects are real MatrixRectangular(1,1)/MatrixSquareSymmetric(1) so that delete runs the real destructors'],
  stubs=['messerr / message: empty (error text only)', 'strlen: plain loop (solver build only)'])
