from kernels import K

# ---------------------------------------------------------------- C10
# C10.c  VectorT / VectorNumT copy-on-write
# pass pipeline without instcombine: instcombine rewrites memmove(dst, src, 8) into an i64 load/store, i.e. reads two ints /
# one double as integer bits, which the typed memory of the symbolic executor (rightly) refuses
_COW_PASSES = 'function(sroa,early-cse,simplifycfg),cgscc(inline),function(sroa,early-cse,simplifycfg,adce),globaldce'
_COW_ASSUME = ['element values are reals (double) / mathematical ints with overflow obligations (int); the members only copy and compare them, '
               'except the VectorNumT arithmetic members which are run on integer-valued content |v| <= 1000',
               'both vectors are VectorNumT<T> objects built by the real constructors (size constructor, copy constructor): use_count == 2 on entry']
for _t, _isint in (('double', 0), ('int', 1)):
    for _n in (0, 1, 2, 3):
        K('C10.c.%s.%d' % (_t, _n), property='C10', engine='symex', harness='C10/cow.cpp', entry='k_cow', tus=[], passes=_COW_PASSES,
          defines={'all': {'VF_INT': _isint, 'VF_N': _n, 'VF_SET': 0}},
          bounds={'quick': 'VectorNumT<%s>, exactly %d elements of arbitrary value, every valid position / count argument; member called on the source and on the copy' % (_t, _n)},
          timeout_ms={'quick': 60000, 'thorough': 600000}, validate={'quick': 10, 'thorough': 30}, validate_doubles='int',
          what='every non-const member of VectorT<T> (operator[], at, setAt, front, back, data, subdata, begin, end, rbegin, rend, clear, reserve, '
               'push_back, push_front, operator<<, insert x3, remove x2, erase x2, resize x2, fill, assign, operator= x4, swap) and of VectorNumT<T> '
               '(add, subtract, multiply) with _detach: called on one of two vectors sharing a buffer, the other keeps size and elements',
          out='VectorNumT::divide (calls libc abs); T other than double/int; more than 3 elements; threads (use_count races); moved-from vectors',
          assumptions=_COW_ASSUME,
          stubs=['throw_exp(msg,file,line): throws an int (real one formats the message through iostream); never reached with valid positions'])
    for _op, _opn in ((0, 'erase(pos)'), (1, 'erase(first,last)'), (2, 'insert(pos,first,last)')):
        K('C10.c.%s.constiter.%d' % (_t, _op), property='C10', engine='symex', harness='C10/cow.cpp', entry='k_cow', tus=[], passes=_COW_PASSES,
          defines={'all': {'VF_INT': _isint, 'VF_N': 2, 'VF_SET': 1, 'VF_OP': _op}},
          bounds={'quick': 'VectorNumT<%s>, exactly 2 elements, %s with pos = cbegin()+i for every valid i' % (_t, _opn)},
          timeout_ms={'quick': 60000, 'thorough': 600000}, validate={'quick': 10, 'thorough': 30}, validate_doubles='int',
          what='VectorT<T>::%s taking const_iterator positions obtained from the const accessors (cbegin/cend) while the buffer is shared: '
               'no undefined operation, the other vector keeps size and elements' % _opn,
          out='as C10.c', assumptions=_COW_ASSUME,
          stubs=['throw_exp(msg,file,line): throws an int'])
    K('C10.c.%s.getVector' % _t, property='C10', engine='symex', harness='C10/cow.cpp', entry='k_cow', tus=[], passes=_COW_PASSES,
      defines={'all': {'VF_INT': _isint, 'VF_N': 2, 'VF_SET': 2}},
      bounds={'quick': 'VectorNumT<%s>, 2 elements, write through getVector() / getVectorPtr()' % _t},
      timeout_ms={'quick': 60000, 'thorough': 600000}, validate={'quick': 10, 'thorough': 30}, validate_doubles='int',
      what='VectorT<T>::getVector() const / getVectorPtr() const return the shared std::vector mutable: a write through them on one vector must not reach its copy',
      out='as C10.c', assumptions=_COW_ASSUME, stubs=['throw_exp(msg,file,line): throws an int'])

# C10.a  KrigingCalcul memo invalidation (shared with C04.b: constants in _kcalc_common.py)
import importlib.util as _ilu, os as _os
_sp = _ilu.spec_from_file_location('reg_kcalc_common', _os.path.join(_os.path.dirname(_os.path.abspath(__file__)), '_kcalc_common.py'))
_kc = _ilu.module_from_spec(_sp)
_sp.loader.exec_module(_kc)
K('C10.a', property='C10', engine='symex', harness='C10/kcalc.cpp', entries=_kc._KC_ENTRIES + ['k_reset'], tus=_kc._KC_TUS,
  bounds=_kc._KC_BOUNDS, timeout_ms={'quick': 60000, 'thorough': 600000}, validate={'quick': 6, 'thorough': 40},
  what=_kc._KC_WHAT, out=_kc._KC_OUT, assumptions=_kc._KC_ASSUME, stubs=_kc._KC_STUBS)

# C10.b  covariance optimisation typestate (pre/post-process pairing)
_OPT_TUS = ['src/Covariances/ACovAnisoList.cpp', 'src/Covariances/ACov.cpp', 'src/Basic/VectorHelper.cpp', 'src/Space/SpacePoint.cpp',
            'src/Space/ASpaceObject.cpp', 'src/Matrix/AMatrix.cpp', 'src/Matrix/AMatrixDense.cpp', 'src/Matrix/MatrixRectangular.cpp',
            'src/Matrix/AMatrixSquare.cpp', 'src/Matrix/MatrixSquareSymmetric.cpp', 'src/Basic/AStringable.cpp']
K('C10.b', property='C10', engine='symex', harness='C10/optim.cpp', entries=['k_optim_rect', 'k_optim_sym'], tus=_OPT_TUS,
  defines={'all': {'VF_NV': 2, 'VF_NE': 2}},
  bounds={'quick': 'every combination of 0..2 active variables (each side) and 0..2 valid samples per variable; variable ranks, sample ranks, ivar0/jvar0 arbitrary ints; db2 null or given; one basic structure'},
  timeout_ms={'quick': 60000, 'thorough': 600000}, validate={'quick': 5, 'thorough': 20},
  what='ACovAnisoList::evalCovMatrixOptim, evalCovMatrixSymmetricOptim (real control flow, every callee overridden): on every return path the number of '
       'optimizationPostProcess calls equals the number of optimizationPreProcess calls',
  out='what Pre/PostProcess do (ACov/CovAniso caches themselves), the matrix values, KrigingSystem::isReady/conclusion pairing',
  assumptions=['ACovAnisoList, Db, CovAniso objects are raw storage (vptr of ACovAnisoList set to the real vtable); the overridden callees do not touch them'],
  stubs=['ACov::optimizationPreProcess(const Db*): counts', 'ACov::optimizationPostProcess(): counts', 'ACov::optimizationSetTarget, ACovAnisoList::optimizationSetTargetByIndex: count',
         'ACov::_getActiveVariables: list of the scenario length, arbitrary content', 'Db::getMultipleRanksActive: one list per variable of the scenario length, arbitrary content',
         'Db::getSampleAsSPInPlace: empty', 'CovAniso::evalOptimInPlace: counts', 'ACov::_updateCovMatrixSymmetricVerr: empty', 'AMatrix::resize: empty',
         'messerr: empty', 'ASpaceObject(const ASpace*), ~ASpaceObject, SpacePoint(const ASpace*), ~SpacePoint: no default-space cloning'])

# C10.e  neighbourhood memo reset (the select part of the same harness is C04.c)
K('C10.e', property='C10', engine='symex', harness='C04/neigh.cpp', entries=['k_reset'],
  tus=['src/Neigh/ANeigh.cpp', 'src/Space/ASpaceObject.cpp', 'src/Basic/ASerializable.cpp', 'src/Basic/AStringable.cpp', 'src/Tree/Ball.cpp'],
  defines={'quick': {'VF_M': 3, 'VF_N': 3}, 'thorough': {'VF_M': 4, 'VF_N': 4}},
  bounds={'quick': 'memo of length 0..3 with arbitrary sorted content, arbitrary previous target and flag'},
  timeout_ms={'quick': 60000, 'thorough': 600000}, validate={'quick': 10, 'thorough': 30},
  what='ANeigh::reset, ANeigh::setIsChanged (what attach() calls): memo empty, isUnchanged() false afterwards; reset also forgets the previous target (_iechMemo == -1)',
  out='attach() itself (dynamic_cast on the Db, ball tree); the other fields reset() clears (_rankColCok, flags) are not memo state',
  assumptions=['ANeigh sub-object built by the real constructor of a test subclass; Db objects are raw storage, never dereferenced'],
  stubs=['TNeigh (test subclass of ANeigh): getNeigh/hasChanged/getMaxSampleNumber not called here', 'ASpaceObject(const ASpace*), ~ASpaceObject: no default-space cloning',
         'Ball::Ball(data,...): no tree built', 'Db::isSampleIndexValid, messageAbort, memcmp: not reached here'])

# C10.a3  no half-built memo survives a failed request of KrigingCalcul (DESIGN suspect S5)
_KN_X = ['InvSigma', 'InvPriorCov', 'XtInvSigma', 'Sigmac', 'Beta', 'InvSigmaSigma0', 'Y0', 'Sigma0p', 'Sigma00p', 'Sigma00pp', 'X0p', 'Z0p', 'Y0p',
         'Lambda0', 'LambdaSK', 'MuUK', 'LambdaUK', 'VarZSK', 'VarZUK', 'Stdv', 'Zstar']
# pass pipeline without the late simplifycfg<sink-common-insts>: it turns 'flagSK ? _VarZSK : _VarZUK' of getVarianceZstarMat into one load through a selected address
# six kernels so that the property runner decides them in parallel: ~8500 obligations in all, most of them 'null pointer dereference' / 'use after free' on the
# present/absent inputs and memo fields; the requests at the top of the dependency graph (last four groups) carry 80% of them
_KN_GROUPS = (_KN_X[0:7], _KN_X[7:14], _KN_X[14:17], _KN_X[17:19], _KN_X[19:20], _KN_X[20:21])
for _i, _grp in enumerate(_KN_GROUPS):
  K('C10.a3.%d' % (_i + 1), property='C10', engine='symex', harness='C10/kneed.cpp', entries=['k_need_' + _x for _x in _grp], tus=_kc._KC_TUS, passes=_COW_PASSES,
    bounds={'quick': 'fresh KrigingCalcul (real constructor, dual form or not), inputs given through the real setters setData/setLHS/setRHS/setVar/setColCokUnique/setBayes '
                     'with every present/absent combination of Z, Sigma, X, Sigma0, X0, Sigma00, PriorMean, PriorCov; (number of drift functions, number of collocated variables) '
                     'in {0,1}x{0,1}; 2 data equations, 2 right-hand sides; each of the 4 inversions (Sigma, PriorCov, Sigmac, local matrix of _needLambda0) succeeds or fails arbitrarily; '
                     'then one request _needX, for X in ' + ', '.join(_grp)},
    timeout_ms={'quick': 60000, 'thorough': 600000}, validate={'quick': 6, 'thorough': 30},
    what='KrigingCalcul::_needInvSigma, _needInvPriorCov, _needXtInvSigma, _needSigmac, _needBeta, _needInvSigmaSigma0, _needY0, _needSigma0p, _needSigma00p, _needSigma00pp, '
         '_needX0p, _needZ0p, _needY0p, _needLambda0, _needLambdaSK, _needMuUK, _needLambdaUK, _needVarZSK, _needVarZUK, _needStdv, _needZstar (+ _patchColCokVarianceZstar, the '
         'presence tests, the real setters and getters): a request that returns non-zero leaves its memo field null / empty, and the same request repeated at once '
         '(through the public getter where one exists) reports the failure again instead of handing out the half-built field',
    out='values of the matrices; failures injected elsewhere than in the inversions and the presence tests; schedules of several different requests before the failing one; '
        'setXvalidUnique (its patch calls _needInvSigma: same defect class); _bDual/_cDual (recomputed on every request); Means absent (_needZstar dereferences _Means unguarded)',
    assumptions=['inversion failure is a function of which matrix is inverted (_InvSigma, _InvPriorCov, _Sigmac, other), not of the call count: repeating the inversion of the same data fails again',
                 'dimension counters _neq/_nrhs/_nbfl/_ncck are forced to the shape constants after the setters ran (they only size the matrices the _need functions allocate)',
                 'Means is always given; collocated option only with the primal form and after an input defining _nrhs (otherwise setColCokUnique fails and leaves _ncck == 0)'],
    stubs=['messerr / message: empty (error text only)', 'strlen: plain loop (solver build only)',
           'AMatrix::invert: returns 0 or 1 under the nondet bit attached to the role of the inverted matrix',
           'AMatrix::linearCombination, AMatrix::prodMatMatInPlace, AMatrixDense::prodMatMatInPlace, AMatrix::prodNormMatMatInPlace, AMatrixDense::prodNormMatMatInPlace, '
           'VectorHelper::linearCombinationInPlace: empty',
           'AMatrix::prodMatVec, AMatrixDense::prodMatVec, VectorHelper::sample: return a vector of one element',
           'MatrixRectangular::sample, MatrixSquareSymmetric::sample: return a fresh 1x1 matrix'])

# C10.f  KrigingSystem::estimate: the kept left-hand side of the previous target is reused only after a target that succeeded with the same neighbours
_EST_TUS = ['src/Estimation/KrigingSystem.cpp', 'src/Neigh/ANeigh.cpp', 'src/Basic/Utilities.cpp', 'src/Basic/VectorHelper.cpp', 'src/Enum/Enums.cpp',
            'src/Matrix/AMatrix.cpp', 'src/Matrix/AMatrixDense.cpp', 'src/Matrix/AMatrixSquare.cpp', 'src/Matrix/MatrixSquareSymmetric.cpp',
            'src/Matrix/MatrixRectangular.cpp', 'src/Matrix/MatrixSquareGeneral.cpp', 'src/Space/ASpaceObject.cpp', 'src/Tree/Ball.cpp',
            'src/Basic/AStringable.cpp', 'src/Basic/ASerializable.cpp']
_EST_STUBS = ['KrigingSystem::_prepar: counts, fails under a symbolic bit; KrigingSystem::_rhsCalcul: counts, fails under a symbolic bit',
              'KrigingSystem::_dualCalcul, _rhsIsoToHetero, _wgtCalcul, _setLocalModel, _bayesCorrectVariance: count',
              'KrigingSystem::_estimateCalcul, _estimateCalculImage, _estimateCalculXvalidUnique, _simulateCalcul, _neighCalcul: record the status they receive',
              'KrigingSystem::_rhsDump, _wgtDump, _saveWeights, _transformGaussianToRaw, _krigingDump, _simulateDump: empty',
              'TNeigh (test subclass of ANeigh): getNeigh returns the rank list of the scenario (arbitrary content); hasChanged: true when nothing is memorised (as every concrete '
              'neighbourhood), else arbitrary; getType: MOVING or UNIQUE; getFlagContinuous: arbitrary; getMaxSampleNumber: not called',
              'Db::isSampleIndexValid, Db::isActive: true', 'OptDbg::query, OptDbg::force: false (no debug option set)',
              'messerr, message, messageAbort, mestitle, db_sample_print: empty', 'ASpaceObject(const ASpace*), ~ASpaceObject: no default-space cloning', 'Ball::Ball(data,...): no tree built',
              'memcmp (solver build): int-wise loop (operator== of std::vector<int>)', 'other callbacks of harness/C01/ks_common.h: not reached']
_EST_ASSUME = ['KrigingSystem, Db are raw storage with only the fields read initialised (harness/C01/ks_common.h); _isReady true, _flagNeighOnly / _flagAnam / _flagFactorKriging false, '
               '_flagBayes, _flagDataChanged, _flagStd, _flagVarZ, _flagSimu, _flagWeights, _flagKeypairWeights, _flagGlobal, cross-validation flag arbitrary',
               'memo pre-state: sorted (representation invariant), consistent with the kept system (a memo left by earlier successful targets)',
               'ENeigh items get their enum values in the solver build (static constructors are not run)']
_EST_WHAT = ('KrigingSystem::estimate (+ _setInternalShortCutVariablesNeigh, getNech, getNeq) with the real ANeigh::select, _isSameTarget, _checkUnchanged, _updateColCok, setIsChanged, isUnchanged: '
             'after a target that failed (no neighbour, or _prepar failed) the next target that has neighbours runs _prepar and _dualCalcul again; _prepar is skipped only after a target that did not fail '
             'and only when the neighbours left in _nbgh are, as a set, those of that previous target')
for _t, _tn in ((0, 'moving'), (1, 'unique'), (2, 'xvalid')):
    K('C10.f.%s' % _tn, property='C10', engine='symex', harness='C10/estimate.cpp', entries=['k_pair_t%d_a%d_f%d' % (_t, _a, _f) for _a in range(7) for _f in range(3)], tus=_EST_TUS,
      bounds={'quick': '%s neighbourhood; two consecutive targets; memo before the first: empty or 2 arbitrary ranks, arbitrary memorised target and flag; each target: the memorised target again / another target '
                       'with hasChanged true / false, getNeigh returns 0 or 2 arbitrary ranks (the memorised set in another order, or a different set); first target: all stages succeed / _prepar fails / '
                       '_rhsCalcul fails; second target: arbitrary failures; continuous flag off (on only with the neighbours of the second target unchanged); rank values, target ranks in [0,1000] and the other flags symbolic'
                       % {'moving': 'moving', 'unique': 'unique', 'xvalid': 'unique, cross-validation option,'}[_tn]},
      timeout_ms={'quick': 60000, 'thorough': 600000}, validate={'quick': 2, 'thorough': 10},
      what=_EST_WHAT,
      out='what the stages compute (C01); image neighbourhood (no selection in estimate); _flagNeighOnly; collocated option; a failing right-hand side stage (C10.f.rhs); lists of other lengths',
      assumptions=_EST_ASSUME, stubs=_EST_STUBS)
K('C10.f.rhs', property='C10', engine='symex', harness='C10/estimate.cpp', entries=['k_rhs_t0_a1', 'k_rhs_t0_a5', 'k_rhs_t1_a1', 'k_rhs_t1_a5'], tus=_EST_TUS,
  bounds={'quick': 'one target with 2 arbitrary neighbours (first target after an empty memo / same set as the memo); moving or unique neighbourhood; the right-hand side stage fails, the preparation fails or not'},
  timeout_ms={'quick': 60000, 'thorough': 600000}, validate={'quick': 4, 'thorough': 20},
  what='KrigingSystem::estimate: when _rhsCalcul reports a failure (undefined drift value at the target: the right-hand side keeps rows of the previous target) the read-out stage receives a '
       'non-zero status (results of the target undefined) instead of computing from the partly updated right-hand side',
  out='as C10.f', assumptions=_EST_ASSUME, stubs=_EST_STUBS)

# C10.g  ball tree: the metric of a tree is selected by the arguments of its own btree_init call (file-static st_distance_function)
def _g_fmax(eng, st, args, where):
    import z3
    from fractions import Fraction
    a, b = args
    if isinstance(a, (int, Fraction)) and isinstance(b, (int, Fraction)):
        return max(a, b)
    za = a if isinstance(a, z3.ExprRef) else z3.RealVal(a)
    zb = b if isinstance(b, z3.ExprRef) else z3.RealVal(b)
    return z3.If(za > zb, za, zb)


def _g_log2_exact(x):
    import math
    from fractions import Fraction
    if x <= 0:
        return None
    return Fraction(math.log2(float(x)))


def _g_pow_exact(x, y):
    from fractions import Fraction
    if Fraction(y).denominator == 1 and (x != 0 or y >= 0):
        return Fraction(x) ** int(y)
    return None


_BD_SYMEX = {'overrides': {'fmax': _g_fmax}, 'libm_exact': {'log2': _g_log2_exact, 'pow': _g_pow_exact}}
_BD_STUBS = ['euclidean_distance: sqrt(sum (x1-x2)^2) computed exactly on the data of the kernel (the library one goes through SpacePoint / ASpace and the default space)',
             'fmax: exact maximum of two reals; log2 / pow: exact values on the concrete integer arguments of the node-count arithmetic of btree_init',
             'caller-supplied metric: Chebyshev distance (harness function passed as dist_function)',
             'heap row built by the harness as nheap_init does, with the finite value 1000 in place of INFINITY']
_BD_ASSUME = ['concrete data: two points (0,0), (6,8), leaf_size 1, query point (9,12): Euclidean, Manhattan and Chebyshev distances all differ on it',
              'default_distance_function restricted to its documented values 1 (Euclidean) and 2 (Manhattan)']
K('C10.g', property='C10', engine='symex', harness='C10/balldist.cpp', entries=['k_second'], tus=['src/Tree/ball_algorithm.cpp', 'src/Tree/neighbors_heap.cpp'], symex=_BD_SYMEX,
  bounds={'quick': 'two consecutive btree_init calls, each with Euclidean default / Manhattan default / caller function (9 orders), on the fixed data of 2 points in 2-D; no symbolic input'},
  timeout_ms={'quick': 60000, 'thorough': 600000}, validate={'quick': 2, 'thorough': 2}, validate_doubles='int',
  what='define_dist_function, btree_init (+ init_node, recursive_build), min_dist, nheap_load / query_depth_first: whatever metric the previous btree_init call selected, the tree built by the second call '
       'has the node radius, the lower bound min_dist and the nearest-neighbour distances of the metric its own arguments select (in particular the Euclidean default after a Manhattan or custom tree)',
  out='querying an older tree after a newer one was built with another metric (C10.g.first); default_distance_function outside {1,2}; the library euclidean_distance itself; Ball / KNN wrappers',
  assumptions=_BD_ASSUME, stubs=_BD_STUBS)
K('C10.g.first', property='C10', engine='symex', harness='C10/balldist.cpp', entries=['k_first'], tus=['src/Tree/ball_algorithm.cpp', 'src/Tree/neighbors_heap.cpp'], symex=_BD_SYMEX,
  bounds={'quick': 'as C10.g; the FIRST tree is queried after the second one was built'},
  timeout_ms={'quick': 60000, 'thorough': 600000}, validate={'quick': 2, 'thorough': 2}, validate_doubles='int',
  what='same functions: a tree queried after another tree was built with a different metric still answers (min_dist, nearest-neighbour distances) with the metric of its own btree_init call',
  out='as C10.g', assumptions=_BD_ASSUME, stubs=_BD_STUBS)
