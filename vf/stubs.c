/* C models of the externals the kernels reach (names are f_<mangled>).  Every model
   here is part of the claim and is listed in evidence under "stubs". */
#include <stdint.h>
#include <stdlib.h>
#include <string.h>
#ifndef __CPROVER__
#define __CPROVER_assume(c) ((void)0)
#define __CPROVER_assert(c, m) ((void)0)
#endif
extern int vf_exc; extern void* vf_exc_obj; extern int vf_exc_sel;

/* ---- allocation: fresh non-null object (allocation failure out of scope) */
uint8_t* f_malloc(uint64_t n) { uint8_t* p = malloc(n ? n : 1); __CPROVER_assume(p != 0); return p; }
uint8_t* f_calloc(uint64_t a, uint64_t b) { uint8_t* p = calloc(a * b ? a * b : 1, 1); __CPROVER_assume(p != 0); return p; }
uint8_t* f_realloc(uint8_t* q, uint64_t n) { uint8_t* p = realloc(q, n ? n : 1); __CPROVER_assume(p != 0); return p; }
void f_free(uint8_t* p) { free(p); }
uint8_t* f__Znwm(uint64_t n) { uint8_t* p = malloc(n ? n : 1); __CPROVER_assume(p != 0); return p; }
uint8_t* f__Znam(uint64_t n) { uint8_t* p = malloc(n ? n : 1); __CPROVER_assume(p != 0); return p; }
void f__ZdlPv(uint8_t* p) { free(p); }
void f__ZdaPv(uint8_t* p) { free(p); }
void f__ZdlPvm(uint8_t* p, uint64_t n) { (void)n; free(p); }
void f__ZdaPvm(uint8_t* p, uint64_t n) { (void)n; free(p); }

/* ---- exceptions: pending flag; selector = small id derived from the typeinfo address */
static void* vf_ti[16]; static int vf_nti;
int vf_typeid_for(void* ti) {
  if (ti == 0) return 0;
  for (int i = 0; i < vf_nti && i < 16; i++) if (vf_ti[i] == ti) return i + 1;
  if (vf_nti < 16) { vf_ti[vf_nti++] = ti; return vf_nti; }
  return 17;
}
uint8_t* f___cxa_allocate_exception(uint64_t n) { uint8_t* p = malloc(n ? n : 1); __CPROVER_assume(p != 0); return p; }
void f___cxa_free_exception(uint8_t* p) { (void)p; }
void f___cxa_throw(uint8_t* obj, uint8_t* tinfo, uint8_t* dtor) { (void)dtor; vf_exc = 1; vf_exc_obj = obj; vf_exc_sel = vf_typeid_for(tinfo); }
uint8_t* f___cxa_begin_catch(uint8_t* p) { vf_exc = 0; return p; }
void f___cxa_end_catch(void) {}
void f___cxa_rethrow(void) { vf_exc = 1; }
void f___cxa_pure_virtual(void) { __CPROVER_assert(0, "VFINFRA: pure virtual called"); __CPROVER_assume(0); }
void f___clang_call_terminate(uint8_t* p) { (void)p; __CPROVER_assert(0, "VF:std::terminate reached"); __CPROVER_assume(0); }
void f__ZSt9terminatev(void) { __CPROVER_assert(0, "VF:std::terminate reached"); __CPROVER_assume(0); }
static void vf_std_throw(void) { vf_exc = 1; vf_exc_obj = 0; vf_exc_sel = 15; }
void f__ZSt20__throw_length_errorPKc(uint8_t* m) { (void)m; vf_std_throw(); }
void f__ZSt24__throw_out_of_range_fmtPKcz(uint8_t* m, ...) { (void)m; vf_std_throw(); }
void f__ZSt20__throw_out_of_rangePKc(uint8_t* m) { (void)m; vf_std_throw(); }
void f__ZSt17__throw_bad_allocv(void) { vf_std_throw(); }
void f__ZSt28__throw_bad_array_new_lengthv(void) { vf_std_throw(); }
void f__ZSt19__throw_logic_errorPKc(uint8_t* m) { (void)m; vf_std_throw(); }
void f__ZSt21__throw_bad_exceptionv(void) { vf_std_throw(); }
void f__ZSt16__throw_bad_castv(void) { vf_std_throw(); }
void f__ZSt25__throw_bad_function_callv(void) { vf_std_throw(); }
void f__ZSt21__throw_runtime_errorPKc(uint8_t* m) { (void)m; vf_std_throw(); }
void f__ZSt24__throw_invalid_argumentPKc(uint8_t* m) { (void)m; vf_std_throw(); }

/* ---- gstlearn message channel: output is not the subject of any kernel */
void f__Z7messerrPKcz(uint8_t* fmt, ...) { (void)fmt; }
void f__Z7messagePKcz(uint8_t* fmt, ...) { (void)fmt; }
void f__Z10messageAbortPKcz(uint8_t* fmt, ...) { (void)fmt; __CPROVER_assert(0, "VF:messageAbort reached"); __CPROVER_assume(0); }
void f__Z8mesArgIntPKciib(uint8_t* t, uint32_t a, uint32_t b, _Bool c) { (void)t; (void)a; (void)b; (void)c; }
void f__Z9mesArgsPKcii(uint8_t* t, uint32_t a, uint32_t b) { (void)t; (void)a; (void)b; }
void f__Z7mesArgsPKcii(uint8_t* t, uint32_t a, uint32_t b) { (void)t; (void)a; (void)b; }
void f__Z11messageFlushRKNSt7__cxx1112basic_stringIcSt11char_traitsIcESaIcEEE(void* s) { (void)s; }
int f___cxa_atexit(void* f, void* a, void* d) { (void)f; (void)a; (void)d; return 0; }
int32_t f___cxa_guard_acquire(uint64_t* g) { return *(uint8_t*)g == 0; }
void f___cxa_guard_release(uint64_t* g) { *(uint8_t*)g = 1; }
void f___cxa_guard_abort(uint64_t* g) { (void)g; }
