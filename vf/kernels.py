"""Kernel registry: which real functions are encoded for which property, with which
engine, bounds, stubs and assumptions.  `what` and `out` go verbatim into evidence."""

COMMON_ASSUMPTIONS = [
    'verdicts are about the LLVM IR that clang++-14 -O1 produces from the current /repo sources (gcc builds the library); '
    'per-run translator validation against a g++ build of the same harness guards the difference',
    'OpenMP pragmas are not compiled in (single thread); static constructors are not executed',
    'allocation failure is out of scope (allocators return fresh non-null objects)',
    'E2 (symex) reads double as exact real numbers (no NaN/inf/rounding) and iN as integers with every '
    'overflow/wrap turned into an obligation; E1 (cbmc) is bit-precise',
]

KERNELS = {}


def K(kid, **kw):
    kw['id'] = kid
    kw.setdefault('property', kid.split('.')[0])
    KERNELS[kid] = kw



CLAIMS = {}
NOTES = {}
NOT_APPLICABLE = {
    'C14': 'Distributional claim over the whole seed space and ensemble moments; no bounded symbolic assertion implies it and '
           'the simulators numerics (Eigen/FFT/libm) cannot be encoded; the only solver-decidable clause (generators stay in range) is decided under C13.',
}

# every property's kernels live in vf/reg/Cnn.py
import glob as _glob
import importlib.util as _ilu
import os as _os
import sys as _sys
_sys.modules.setdefault('kernels', _sys.modules[__name__])
for _f in sorted(_glob.glob(_os.path.join(_os.path.dirname(_os.path.abspath(__file__)), 'reg', 'C*.py'))):
    _spec = _ilu.spec_from_file_location('reg_' + _os.path.basename(_f)[:-3], _f)
    _m = _ilu.module_from_spec(_spec)
    _spec.loader.exec_module(_m)
    CLAIMS.update(getattr(_m, 'CLAIMS', {}))
    NOTES.update(getattr(_m, 'NOTES', {}))
