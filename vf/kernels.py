"""Kernel registry: which real functions are encoded for which property, with which
engine, bounds, stubs and assumptions.  `what` and `out` go verbatim into evidence."""

COMMON_ASSUMPTIONS = [
    'verdicts are about the LLVM IR that clang++-14 -O1 produces from the current /repo sources (gcc builds the library); '
    'per-run translator validation against a g++ build of the same harness guards the difference',
    'OpenMP pragmas are not compiled in (single thread); static constructors are not executed',
    'allocation failure is out of scope (allocators return fresh non-null objects)',
    'E2 (symex) reads double as exact real numbers (no NaN/inf/rounding) and iN as integers with every '
    'overflow/wrap turned into an obligation; E1 (cbmc) is bit-precise',
]

KERNELS = {}


def K(kid, **kw):
    kw['id'] = kid
    kw.setdefault('property', kid.split('.')[0])
    KERNELS[kid] = kw


# ---------------------------------------------------------------- C06
K('C06.e', engine='symex', harness='C06/sort.cpp', entry='k_sort', tus=['src/Tree/neighbors_heap.cpp'],
  defines={'quick': {'VF_N': 6}, 'thorough': {'VF_N': 8}},
  bounds={'quick': 'size 0..6, arbitrary distinct-or-equal finite distances', 'thorough': 'size 0..8'},
  validate={'quick': 30, 'thorough': 60},
  what='simultaneous_sort/dual_swap (neighbors_heap.cpp): output ascending, (dist,idx) pairs stay a permutation; full recursion executed',
  out='NaN distances; sizes above the bound',
  assumptions=['distances are finite reals (comparison-only code: the real reading is exact for finite doubles)'])

CLAIMS = {}
NOTES = {}
NOT_APPLICABLE = {
    'C14': 'Distributional claim over the whole seed space and ensemble moments; no bounded symbolic assertion implies it and '
           'the simulators numerics (Eigen/FFT/libm) cannot be encoded; the only solver-decidable clause (generators stay in range) is decided under C13.',
}

# ---------------------------------------------------------------- C20
_C20TUS = ['src/Polygon/PolyElem.cpp', 'src/Basic/PolyLine2D.cpp', 'src/Basic/AStringable.cpp', 'src/Basic/ASerializable.cpp']
for _nv, _tiers in ((3, ('quick', 'thorough')), (4, ('quick', 'thorough')), (5, ('quick', 'thorough')), (6, ('quick', 'thorough')),
                    (7, ('thorough',)), (8, ('thorough',))):
    K('C20.a.%d' % _nv, property='C20', engine='symex', harness='C20/inside.cpp', entry='k_polyelem_inside', tus=_C20TUS,
      defines={'all': {'VF_NV': _nv}}, tiers=_tiers,
      bounds={'quick': 'closed polyline with exactly %d vertices (arbitrary, also self-intersecting), vertices and query point on the integer grid |v|<=2^20, point off the boundary' % _nv},
      timeout_ms={'quick': 240000, 'thorough': 1800000}, validate={'quick': 40, 'thorough': 100}, validate_doubles='int',
      symex={'fp_exact': True}, require_exact=False,
      what='PolyElem::inside (with PolyElem/PolyLine2D constructors, VectorT accessors) == exact even-odd crossing parity',
      out='non-grid coordinates (floating rounding near the boundary), more vertices than the bound',
      assumptions=['coordinates are integers with |v| <= 2^20: every +,-,* result is an integer below 2^53 (discharged as "exact" obligations) so the real-arithmetic verdict transfers to IEEE doubles; the single division is only compared (DESIGN 1.4 lemma)'])

# ---------------------------------------------------------------- C03
_COV = {
    # name: (header, support, ndim, closed form, Lipschitz bound)
    'CovSpherical': ('Covariances/CovSpherical.hpp', 1, 3, '((h) < 1 ? 1 - 1.5 * (h) + 0.5 * (h) * (h) * (h) : 0.)', 1.5),
    'CovCubic': ('Covariances/CovCubic.hpp', 1, 3, '((h) < 1 ? 1 - 7*(h)*(h) + 8.75*(h)*(h)*(h) - 3.5*(h)*(h)*(h)*(h)*(h) + 0.75*(h)*(h)*(h)*(h)*(h)*(h)*(h) : 0.)', 2.5),
    'CovTriangle': ('Covariances/CovTriangle.hpp', 1, 1, '((h) < 1 ? 1 - (h) : 0.)', 1.0),
    'CovWendland0': ('Covariances/CovWendland0.hpp', 1, 3, '((h) < 1 ? (1-(h))*(1-(h)) : 0.)', 2.0),
    'CovWendland1': ('Covariances/CovWendland1.hpp', 1, 3, '((h) < 1 ? (1-(h))*(1-(h))*(1-(h))*(1-(h))*(4*(h)+1) : 0.)', 2.5),
    'CovWendland2': ('Covariances/CovWendland2.hpp', 1, 3, '((h) < 1 ? (1-(h))*(1-(h))*(1-(h))*(1-(h))*(1-(h))*(1-(h))*(35*(h)*(h)+18*(h)+3)/3. : 0.)', 2.5),
    'CovReg1D': ('Covariances/CovReg1D.hpp', 2, 1, '((h) < 1 ? 1 - 3*(h) + 1.5*(h)*(h) + 0.25*(h)*(h)*(h) : (h) < 2 ? -2 + 3*(h) - 1.5*(h)*(h) + 0.25*(h)*(h)*(h) : 0.)', 3.0),
    # published penta model (same polynomial as the library's own Tapering "Pentamodel")
    'CovPenta': ('Covariances/CovPenta.hpp', 1, 3, '((h) < 1 ? 1 - (22./3.)*(h)*(h) + 33*(h)*(h)*(h)*(h) - 38.5*(h)*(h)*(h)*(h)*(h) + 16.5*(h)*(h)*(h)*(h)*(h)*(h)*(h) - 5.5*(h)*(h)*(h)*(h)*(h)*(h)*(h)*(h)*(h) + (5./6.)*(h)*(h)*(h)*(h)*(h)*(h)*(h)*(h)*(h)*(h)*(h) : 0.)', 3.0),
}
for _c, (_h, _sup, _nd, _ref, _lip) in _COV.items():
    K('C03.a.' + _c, property='C03', engine='symex', harness='C03/poly.cpp', entries=['k_cov_shape', 'k_cov_pd'],
      tus=['src/Covariances/%s.cpp' % _c],
      defines={'all': {'VF_COV': _c, 'VF_HDR': '"%s"' % _h, 'VF_SUPPORT': _sup, 'VF_NDIM': _nd,
                       'VF_REF(h)': _ref, 'VF_LIP': _lip},
               # degree 8 / 11 polynomials with rounded rational coefficients: the conditions that involve
               # sqrt(2), sqrt(3) do not finish inside the quick budget and are decided in the thorough tier
               'quick': {'VF_PD_LEVEL': 1 if _c in ('CovWendland2', 'CovPenta') else 2}, 'thorough': {'VF_PD_LEVEL': 2}},
      bounds={'quick': 'h, s free non-negative reals (a continuum); point sets: 1-D up to 5 equally spaced points with 9 weight vectors; 2-D triangle, square, hexagon, hexagon+centre; 3-D tetrahedron, octahedron, cube'},
      timeout_ms={'quick': 100000, 'thorough': 1800000}, validate={'quick': 25, 'thorough': 60},
      native=True,
      what='%s::_evaluateCov, getMaxNDim: shape facts, published closed form, necessary positive-definiteness conditions per declared dimension' % _c,
      out='sufficiency of positive definiteness (all point sets); anisotropy/rotation/sill (CovAniso, Tensor); rounding of the <=20 floating operations',
      assumptions=['real-arithmetic reading of _evaluateCov; sqrt(2), sqrt(3) introduced as positive algebraic numbers'])
