"""Kernel registry: which real functions are encoded for which property, with which
engine, bounds, stubs and assumptions.  `what` and `out` go verbatim into evidence."""

COMMON_ASSUMPTIONS = [
    'verdicts are about the LLVM IR that clang++-14 -O1 produces from the current /repo sources (gcc builds the library); '
    'per-run translator validation against a g++ build of the same harness guards the difference',
    'OpenMP pragmas are not compiled in (single thread); static constructors are not executed',
    'allocation failure is out of scope (allocators return fresh non-null objects)',
    'E2 (symex) reads double as exact real numbers (no NaN/inf/rounding) and iN as integers with every '
    'overflow/wrap turned into an obligation; E1 (cbmc) is bit-precise',
]

KERNELS = {}


def K(kid, **kw):
    kw['id'] = kid
    kw.setdefault('property', kid.split('.')[0])
    KERNELS[kid] = kw


# ---------------------------------------------------------------- C06
K('C06.e', engine='symex', harness='C06/sort.cpp', entry='k_sort', tus=['src/Tree/neighbors_heap.cpp'],
  defines={'quick': {'VF_N': 6}, 'thorough': {'VF_N': 8}},
  bounds={'quick': 'size 0..6, arbitrary distinct-or-equal finite distances', 'thorough': 'size 0..8'},
  validate={'quick': 30, 'thorough': 60},
  what='simultaneous_sort/dual_swap (neighbors_heap.cpp): output ascending, (dist,idx) pairs stay a permutation; full recursion executed',
  out='NaN distances; sizes above the bound',
  assumptions=['distances are finite reals (comparison-only code: the real reading is exact for finite doubles)'])

CLAIMS = {}
NOTES = {}
NOT_APPLICABLE = {
    'C14': 'Distributional claim over the whole seed space and ensemble moments; no bounded symbolic assertion implies it and '
           'the simulators numerics (Eigen/FFT/libm) cannot be encoded; the only solver-decidable clause (generators stay in range) is decided under C13.',
}
