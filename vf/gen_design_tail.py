#!/usr/local/bin/python3-vt
"""Regenerates sections 8-11 of DESIGN.md (kernels as built, findings, seeded changes, costs) from the
registry, known_findings.json, seeded/*/meta.json and evidence/*.json. Text blocks live in vf/design_tail.tmpl."""
import json, os, glob, subprocess, sys
V = os.path.dirname(os.path.dirname(os.path.abspath(__file__)))
p = V + '/DESIGN.md'
s = open(p).read()
i = s.find('\n## 8. Kernels as built')
if i > 0:
    s = s[:i]
tables = subprocess.check_output(['/usr/local/bin/python3-vt', V + '/vf/gen_design_tables.py']).decode()
kf = json.load(open(V + '/known_findings.json'))
fixed = '\n'.join('* `%s`' % f for f in kf['fixed'])
known = '\n'.join('* **%s / %s** — assert "%s": %s\n  %s' % (f['property'], f['kernel'], f['assert_id'], f['signature'], f['description']) for f in kf['findings'])
rows = ['| name | property | change | needs | caught by |', '|---|---|---|---|---|']
for m in sorted(glob.glob(V + '/seeded/*/meta.json')):
    d = json.load(open(m))
    def c(x): return str(x).replace('|', '\\|').replace('\n', ' ')
    rows.append('| %s | %s | %s | %s | %s |' % (os.path.basename(os.path.dirname(m)), d['property'], c(d['change']), c(d['needs_to_manifest']), c(d['caught_by'])))
costs = ['| property | kernels run | obligations | solver queries | wall s |', '|---|---|---|---|---|']
for e in sorted(glob.glob(V + '/evidence/C*.json')):
    d = json.load(open(e))
    cov = d['coverage']
    costs.append('| %s (%s) | %d | %d | %d | %.0f |' % (d['property_id'], d['tier'], len(cov.get('kernels', [])), cov.get('obligations', 0), cov.get('evaluations', 0), d['wall_s']))
tmpl = open(V + '/vf/design_tail.tmpl').read()
tail = tmpl.replace('@@TABLES@@', tables).replace('@@FIXED@@', fixed).replace('@@KNOWN@@', known).replace('@@SEEDED@@', '\n'.join(rows)).replace('@@COSTS@@', '\n'.join(costs))
open(p, 'w').write(s.rstrip('\n') + '\n' + tail)
print('DESIGN.md tail regenerated')
