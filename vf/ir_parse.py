"""Parser for the textual LLVM-14 IR produced by clang++-14 (typed pointers).

One in-memory IR shared by the two encoders (ir2c.py: IR -> C for cbmc;
symex.py: IR -> z3 Int/Real).  Only what clang emits at -O1 for the gstlearn
translation units is supported; anything else raises IRError so that a kernel is
rejected instead of being silently approximated.
"""
import re
import struct as _struct


class IRError(Exception):
    pass


# ---------------------------------------------------------------- types
class Type:
    kind = '?'

    def __repr__(self):
        return self.s()


class VoidT(Type):
    kind = 'void'

    def s(self):
        return 'void'


class IntT(Type):
    kind = 'int'

    def __init__(self, bits):
        self.bits = bits

    def s(self):
        return 'i%d' % self.bits


class FloatT(Type):
    kind = 'float'

    def __init__(self, name):
        self.name = name  # float double x86_fp80 half

    def s(self):
        return self.name


class PtrT(Type):
    kind = 'ptr'

    def __init__(self, elem):
        self.elem = elem

    def s(self):
        return self.elem.s() + '*'


class ArrT(Type):
    kind = 'arr'

    def __init__(self, n, elem):
        self.n = n
        self.elem = elem

    def s(self):
        return '[%d x %s]' % (self.n, self.elem.s())


class VecT(Type):
    kind = 'vec'

    def __init__(self, n, elem):
        self.n = n
        self.elem = elem

    def s(self):
        return '<%d x %s>' % (self.n, self.elem.s())


class StructT(Type):
    kind = 'struct'

    def __init__(self, name=None, fields=None, packed=False, opaque=False):
        self.name = name
        self.fields = fields
        self.packed = packed
        self.opaque = opaque

    def s(self):
        if self.name is not None:
            return '%' + self.name
        body = ', '.join(f.s() for f in self.fields)
        return ('<{ %s }>' if self.packed else '{ %s }') % body


class FuncT(Type):
    kind = 'func'

    def __init__(self, ret, params, vararg):
        self.ret = ret
        self.params = params
        self.vararg = vararg

    def s(self):
        p = [x.s() for x in self.params] + (['...'] if self.vararg else [])
        return '%s (%s)' % (self.ret.s(), ', '.join(p))


class MiscT(Type):
    def __init__(self, kind):
        self.kind = kind

    def s(self):
        return self.kind


VOID = VoidT()
I1, I8, I16, I32, I64 = IntT(1), IntT(8), IntT(16), IntT(32), IntT(64)
DOUBLE = FloatT('double')
FLOAT = FloatT('float')


# ---------------------------------------------------------------- values
class Val:
    """k: local global int fp null undef zero agg cstr cexpr meta blockaddr"""
    __slots__ = ('k', 'v', 'ty', 'ops', 'extra')

    def __init__(self, k, v=None, ty=None, ops=None, extra=None):
        self.k = k
        self.v = v
        self.ty = ty
        self.ops = ops
        self.extra = extra

    def __repr__(self):
        return 'Val(%s,%r)' % (self.k, self.v if self.ops is None else (self.v, self.ops))


class Instr:
    __slots__ = ('op', 'res', 'ty', 'ops', 'a', 'line')

    def __init__(self, op, res=None, ty=None, ops=None, a=None, line=''):
        self.op = op
        self.res = res
        self.ty = ty      # result type (None / VOID if none)
        self.ops = ops or []   # list of Val (typed)
        self.a = a or {}       # misc attributes
        self.line = line


class Block:
    def __init__(self, name):
        self.name = name
        self.instrs = []
        self.preds = []


class Function:
    def __init__(self, name, ret, params, vararg, attrs, lines, mod, is_decl):
        self.name = name
        self.ret = ret
        self.params = params  # list of (Type, name)
        self.vararg = vararg
        self.attrs = attrs
        self._lines = lines
        self.mod = mod
        self.is_decl = is_decl
        self._blocks = None
        self.localtypes = None

    @property
    def ftype(self):
        return FuncT(self.ret, [p[0] for p in self.params], self.vararg)

    @property
    def blocks(self):
        if self._blocks is None:
            self._blocks = _parse_body(self)
        return self._blocks

    def nounwind(self):
        return 'nounwind' in self.attrs

    def noreturn(self):
        return 'noreturn' in self.attrs


class Global:
    def __init__(self, name, ty, init, const, linkage, line):
        self.name = name
        self.ty = ty       # value type (the global itself is ty*)
        self.init = init   # Val or None (external)
        self.const = const
        self.linkage = linkage
        self.line = line
        self._parsed = False


class Module:
    def __init__(self):
        self.structs = {}    # name -> StructT
        self.globals = {}    # name -> Global
        self.funcs = {}      # name -> Function
        self.aliases = {}    # name -> target global/function name
        self.attrgroups = {}  # '#n' -> set of words
        self.datalayout = ''

    # ---- layout (x86-64 SysV as in the module's datalayout)
    def sizeof(self, t):
        return self._sa(t)[0]

    def alignof(self, t):
        return self._sa(t)[1]

    def _sa(self, t):
        k = t.kind
        if k == 'int':
            if t.bits <= 8:
                return 1, 1
            if t.bits <= 16:
                return 2, 2
            if t.bits <= 32:
                return 4, 4
            if t.bits <= 64:
                return 8, 8
            if t.bits <= 128:
                return 16, 16
            raise IRError('int width %d' % t.bits)
        if k == 'float':
            return {'float': (4, 4), 'double': (8, 8), 'half': (2, 2), 'x86_fp80': (16, 16)}[t.name]
        if k == 'ptr':
            return 8, 8
        if k == 'arr':
            s, a = self._sa(t.elem)
            return s * t.n, a
        if k == 'vec':
            s, a = self._sa(t.elem)
            return s * t.n, s * t.n
        if k == 'struct':
            t = self.resolve(t)
            if t.opaque:
                raise IRError('sizeof opaque %s' % t.s())
            off, al = 0, 1
            for f in t.fields:
                s, a = self._sa(f)
                if t.packed:
                    a = 1
                off = (off + a - 1) // a * a
                off += s
                al = max(al, a)
            off = (off + al - 1) // al * al
            return off, al
        raise IRError('sizeof %s' % t.s())

    def resolve(self, t):
        if t.kind == 'struct' and t.name is not None and t.fields is None and not t.opaque:
            r = self.structs.get(t.name)
            if r is None:
                raise IRError('unknown struct %s' % t.name)
            return r
        return t

    def field_offset(self, t, idx):
        t = self.resolve(t)
        off = 0
        for i, f in enumerate(t.fields):
            s, a = self._sa(f)
            if t.packed:
                a = 1
            off = (off + a - 1) // a * a
            if i == idx:
                return off
            off += s
        raise IRError('field index')


# ---------------------------------------------------------------- tokenizer
_TOK = re.compile(r'''
    (?P<ws>\s+)
  | (?P<comment>;.*$)
  | (?P<cstr>c"(?:[^"\\]|\\[0-9A-Fa-f]{2}|\\\\)*")
  | (?P<str>"(?:[^"\\]|\\[0-9A-Fa-f]{2}|\\\\)*")
  | (?P<local>%(?:"(?:[^"\\]|\\.)*"|[-a-zA-Z$._0-9]+))
  | (?P<glob>@(?:"(?:[^"\\]|\\.)*"|[-a-zA-Z$._0-9]+))
  | (?P<meta>!(?:[-a-zA-Z$._0-9]+|"(?:[^"\\]|\\.)*")?)
  | (?P<attr>\#\d+)
  | (?P<hex>0x[KMLHR]?[0-9A-Fa-f]+)
  | (?P<fp>-?\d+\.\d*(?:[eE][-+]?\d+)?)
  | (?P<int>-?\d+)
  | (?P<dots>\.\.\.)
  | (?P<id>[a-zA-Z_][a-zA-Z0-9_.]*)
  | (?P<p>[()\[\]{}<>,=*:|])
''', re.X)


def tokenize(line):
    out = []
    pos = 0
    n = len(line)
    while pos < n:
        m = _TOK.match(line, pos)
        if not m:
            raise IRError('tokenize: %r at %d' % (line, pos))
        pos = m.end()
        k = m.lastgroup
        if k in ('ws', 'comment'):
            continue
        out.append((k, m.group(k)))
    return out


def _unq(name):
    # strip sigil, unquote
    s = name[1:]
    if s.startswith('"'):
        s = s[1:-1]
        s = re.sub(r'\\([0-9A-Fa-f]{2})', lambda m: chr(int(m.group(1), 16)), s)
    return s


def _cstr_bytes(tok):
    s = tok[2:-1]
    out = bytearray()
    i = 0
    while i < len(s):
        c = s[i]
        if c == '\\':
            if s[i + 1] == '\\':
                out.append(92)
                i += 2
            else:
                out.append(int(s[i + 1:i + 3], 16))
                i += 3
        else:
            out.append(ord(c))
            i += 1
    return bytes(out)


PARAM_ATTRS = {
    'noundef', 'nocapture', 'readonly', 'readnone', 'writeonly', 'nonnull', 'noalias', 'signext',
    'zeroext', 'returned', 'inreg', 'nest', 'immarg', 'nofree', 'swiftself', 'swifterror', 'inalloca',
    'noreturn', 'nounwind', 'mustprogress', 'allocptr',
}
PARAM_ATTRS_ARG = {'align', 'dereferenceable', 'dereferenceable_or_null', 'sret', 'byval', 'byref',
                   'preallocated', 'elementtype', 'allocalign'}
LINKAGE = {'private', 'internal', 'available_externally', 'linkonce', 'weak', 'common', 'appending',
           'extern_weak', 'linkonce_odr', 'weak_odr', 'external'}
MISC_PREFIX = {'dso_local', 'dso_preemptable', 'default', 'hidden', 'protected', 'local_unnamed_addr',
               'unnamed_addr', 'thread_local', 'externally_initialized', 'dllimport', 'dllexport',
               'fastcc', 'coldcc', 'ccc'}
FMF = {'fast', 'nnan', 'ninf', 'nsz', 'arcp', 'contract', 'afn', 'reassoc'}
CASTS = {'trunc', 'zext', 'sext', 'fptrunc', 'fpext', 'fptoui', 'fptosi', 'uitofp', 'sitofp',
         'ptrtoint', 'inttoptr', 'bitcast', 'addrspacecast'}
BINOPS = {'add', 'sub', 'mul', 'udiv', 'sdiv', 'urem', 'srem', 'shl', 'lshr', 'ashr', 'and', 'or',
          'xor', 'fadd', 'fsub', 'fmul', 'fdiv', 'frem'}


class P:
    """Token stream with the recursive-descent helpers."""

    def __init__(self, toks, mod, line=''):
        self.t = toks
        self.i = 0
        self.mod = mod
        self.line = line

    def peek(self, o=0):
        j = self.i + o
        return self.t[j] if j < len(self.t) else (None, None)

    def next(self):
        tk = self.peek()
        self.i += 1
        return tk

    def at(self, v):
        return self.peek()[1] == v

    def accept(self, v):
        if self.peek()[1] == v:
            self.i += 1
            return True
        return False

    def expect(self, v):
        if not self.accept(v):
            raise IRError('expected %r got %r in: %s' % (v, self.peek(), self.line))

    def eof(self):
        return self.i >= len(self.t)

    # ---- types
    def type(self):
        k, v = self.next()
        if k == 'id':
            if v == 'void':
                t = VOID
            elif v[0] == 'i' and v[1:].isdigit():
                t = IntT(int(v[1:]))
            elif v in ('float', 'double', 'x86_fp80', 'half', 'fp128', 'bfloat'):
                t = FloatT(v)
            elif v in ('label', 'metadata', 'token', 'x86_mmx'):
                t = MiscT(v)
            elif v == 'opaque':
                t = StructT(None, None, False, True)
            elif v == 'ptr':
                raise IRError('opaque pointers not supported')
            else:
                raise IRError('type? %r in: %s' % (v, self.line))
        elif k == 'local':
            t = StructT(_unq(v))
        elif v == '[':
            n = int(self.next()[1])
            x = self.next()
            assert x[1] == 'x', self.line
            e = self.type()
            self.expect(']')
            t = ArrT(n, e)
        elif v == '<':
            if self.at('{'):
                self.next()
                fs = self._typelist('}')
                self.expect('>')
                t = StructT(None, fs, True)
            else:
                n = int(self.next()[1])
                x = self.next()
                assert x[1] == 'x'
                e = self.type()
                self.expect('>')
                t = VecT(n, e)
        elif v == '{':
            fs = self._typelist('}')
            t = StructT(None, fs, False)
        else:
            raise IRError('type? %r in: %s' % (v, self.line))
        # suffixes
        while True:
            if self.at('*'):
                self.next()
                t = PtrT(t)
            elif self.at('addrspace'):
                self.next()
                self.expect('(')
                self.next()
                self.expect(')')
            elif self.at('('):
                self.next()
                ps = []
                va = False
                while not self.at(')'):
                    if self.at('...'):
                        self.next()
                        va = True
                    else:
                        ps.append(self.type())
                        self.skip_param_attrs()
                    if not self.accept(','):
                        break
                self.expect(')')
                t = FuncT(t, ps, va)
            else:
                break
        return t

    def _typelist(self, close):
        fs = []
        while not self.at(close):
            fs.append(self.type())
            if not self.accept(','):
                break
        self.expect(close)
        return fs

    def skip_param_attrs(self):
        got = set()
        while True:
            k, v = self.peek()
            if k == 'id' and v in PARAM_ATTRS:
                self.next()
                got.add(v)
            elif k == 'id' and v in PARAM_ATTRS_ARG:
                self.next()
                got.add(v)
                if self.at('('):
                    d = 0
                    while True:
                        x = self.next()[1]
                        if x == '(':
                            d += 1
                        elif x == ')':
                            d -= 1
                            if d == 0:
                                break
                elif self.peek()[0] == 'int':
                    self.next()
            else:
                break
        return got

    # ---- values
    def value(self, ty):
        k, v = self.next()
        if k == 'local':
            return Val('local', _unq(v), ty)
        if k == 'glob':
            return Val('global', _unq(v), ty)
        if k == 'int':
            return Val('int', int(v), ty)
        if k == 'fp':
            return Val('fp', _dbl_bits(float(v), ty), ty)
        if k == 'hex':
            return Val('fp', _hexfp_bits(v, ty), ty)
        if k == 'cstr':
            return Val('cstr', _cstr_bytes(v), ty)
        if k == 'id':
            if v == 'true':
                return Val('int', 1, ty)
            if v == 'false':
                return Val('int', 0, ty)
            if v == 'null':
                return Val('null', None, ty)
            if v in ('undef', 'poison'):
                return Val('undef', None, ty)
            if v == 'zeroinitializer':
                return Val('zero', None, ty)
            if v == 'none':
                return Val('undef', None, ty)
            if v == 'blockaddress':
                raise IRError('blockaddress')
            if v == 'dso_local_equivalent' or v == 'no_cfi':
                return self.value(ty)
            return self.cexpr(v, ty)
        if v == '{' or v == '[':
            close = '}' if v == '{' else ']'
            ops = []
            while not self.at(close):
                ops.append(self.tvalue())
                if not self.accept(','):
                    break
            self.expect(close)
            return Val('agg', v, ty, ops)
        if v == '<':
            if self.accept('{'):
                ops = []
                while not self.at('}'):
                    ops.append(self.tvalue())
                    if not self.accept(','):
                        break
                self.expect('}')
                self.expect('>')
                return Val('agg', '<{', ty, ops)
            ops = []
            while not self.at('>'):
                ops.append(self.tvalue())
                if not self.accept(','):
                    break
            self.expect('>')
            return Val('agg', '<', ty, ops)
        if k == 'meta':
            # metadata operand: skip a balanced blob
            return self._meta(v)
        raise IRError('value? %r in: %s' % ((k, v), self.line))

    def _meta(self, v):
        if self.at('{') or self.at('('):
            d = 0
            while True:
                x = self.next()[1]
                if x in '{(':
                    d += 1
                elif x in '})':
                    d -= 1
                    if d == 0:
                        break
        elif v == '!' and self.peek()[0] == 'str':
            self.next()
        elif self.peek()[0] == 'id' and self.peek(1)[1] == '(':
            # !DIExpression(...)
            self.next()
            return self._meta(v)
        return Val('meta', v)

    def tvalue(self):
        ty = self.type()
        if ty.kind == 'metadata':
            k, v = self.peek()
            if k == 'meta':
                self.next()
                return self._meta(v)
            # metadata wrapping a typed value
            return self.tvalue()
        self.skip_param_attrs()
        return self.value(ty)

    def cexpr(self, op, ty):
        if op == 'getelementptr':
            inb = self.accept('inbounds')
            self.expect('(')
            sty = self.type()
            self.expect(',')
            ops = [self.tvalue()]
            while self.accept(','):
                self.accept('inrange')
                ops.append(self.tvalue())
            self.expect(')')
            return Val('cexpr', 'getelementptr', ty, ops, {'sty': sty, 'inbounds': inb})
        if op in CASTS:
            self.expect('(')
            x = self.tvalue()
            self.expect('to')
            t2 = self.type()
            self.expect(')')
            return Val('cexpr', op, t2, [x])
        if op in BINOPS:
            fl = set()
            while self.peek()[1] in ('nsw', 'nuw', 'exact'):
                fl.add(self.next()[1])
            self.expect('(')
            a = self.tvalue()
            self.expect(',')
            b = self.tvalue()
            self.expect(')')
            return Val('cexpr', op, a.ty, [a, b], {'flags': fl})
        if op in ('icmp', 'fcmp'):
            pred = self.next()[1]
            self.expect('(')
            a = self.tvalue()
            self.expect(',')
            b = self.tvalue()
            self.expect(')')
            return Val('cexpr', op, I1, [a, b], {'pred': pred})
        if op == 'select':
            self.expect('(')
            a = self.tvalue()
            self.expect(',')
            b = self.tvalue()
            self.expect(',')
            c = self.tvalue()
            self.expect(')')
            return Val('cexpr', op, b.ty, [a, b, c])
        raise IRError('constant expr %r in: %s' % (op, self.line))


def _dbl_bits(f, ty):
    if ty is not None and ty.kind == 'float' and ty.name == 'float':
        # decimal literals for float are exactly representable doubles
        return ('float', _struct.unpack('<I', _struct.pack('<f', f))[0])
    return ('double', _struct.unpack('<Q', _struct.pack('<d', f))[0])


def _hexfp_bits(tok, ty):
    h = tok[2:]
    if h[0] in 'KMLHR':
        return ('x86_fp80' if h[0] == 'K' else 'other', int(h[1:], 16))
    bits = int(h, 16)
    if ty is not None and ty.kind == 'float' and ty.name == 'float':
        d = _struct.unpack('<d', _struct.pack('<Q', bits))[0]
        return ('float', _struct.unpack('<I', _struct.pack('<f', d))[0])
    return ('double', bits)


# ---------------------------------------------------------------- module level
_DEFINE = re.compile(r'^(define|declare)\b')
_TYPEDEF = re.compile(r'^(%(?:"(?:[^"\\]|\\.)*"|[-a-zA-Z$._0-9]+))\s*=\s*type\s+(.*)$')
_GLOBAL = re.compile(r'^(@(?:"(?:[^"\\]|\\.)*"|[-a-zA-Z$._0-9]+))\s*=\s*(.*)$')
_ATTRG = re.compile(r'^attributes\s+(#\d+)\s*=\s*\{(.*)\}\s*$')


def parse_module(text):
    mod = Module()
    lines = text.split('\n')
    i = 0
    n = len(lines)
    pend_globals = []
    while i < n:
        ln = lines[i]
        i += 1
        if not ln or ln[0] == ';' or ln[0] == '!':
            continue
        if ln.startswith('target datalayout'):
            mod.datalayout = ln
            continue
        if ln.startswith('target') or ln.startswith('source_filename') or ln.startswith('module asm'):
            continue
        if ln.startswith('$'):  # comdat
            continue
        m = _TYPEDEF.match(ln)
        if m:
            name = _unq(m.group(1))
            p = P(tokenize(m.group(2)), mod, ln)
            t = p.type()
            if t.kind == 'struct' and t.name is None:
                t.name = name
                mod.structs[name] = t
            else:
                raise IRError('typedef of non-struct: ' + ln)
            continue
        m = _ATTRG.match(ln)
        if m:
            words = set(re.findall(r'"[^"]*"(?:="[^"]*")?|[a-z_]+(?:\([^)]*\))?', m.group(2)))
            mod.attrgroups[m.group(1)] = words
            continue
        m = _DEFINE.match(ln)
        if m:
            is_decl = m.group(1) == 'declare'
            body = []
            if not is_decl:
                while i < n and lines[i] != '}':
                    body.append(lines[i])
                    i += 1
                i += 1
            f = _parse_fhead(ln, body, mod, is_decl)
            mod.funcs[f.name] = f
            continue
        m = _GLOBAL.match(ln)
        if m:
            pend_globals.append((_unq(m.group(1)), m.group(2), ln))
            continue
        if ln.startswith('attributes') or ln.startswith('uselistorder'):
            continue
        raise IRError('module line? ' + ln)
    for name, rest, ln in pend_globals:
        _parse_global(mod, name, rest, ln)
    # attribute groups -> function attrs
    for f in mod.funcs.values():
        extra = set()
        for a in list(f.attrs):
            if a.startswith('#'):
                extra |= mod.attrgroups.get(a, set())
        f.attrs |= extra
    return mod


def _parse_global(mod, name, rest, ln):
    toks = tokenize(rest)
    p = P(toks, mod, ln)
    linkage = 'external_def'
    const = False
    while True:
        k, v = p.peek()
        if k == 'id' and (v in LINKAGE or v in MISC_PREFIX):
            p.next()
            if v in LINKAGE:
                linkage = v
            if v == 'thread_local' and p.at('('):
                p.next(); p.next(); p.expect(')')
        elif k == 'id' and v == 'addrspace':
            p.next(); p.expect('('); p.next(); p.expect(')')
        else:
            break
    k, v = p.peek()
    if v == 'alias' or v == 'ifunc':
        p.next()
        p.type()
        p.expect(',')
        tv = p.tvalue()
        tgt = tv
        while tgt.k == 'cexpr' and tgt.v in ('bitcast',):
            tgt = tgt.ops[0]
        if tgt.k != 'global':
            raise IRError('alias target: ' + ln)
        mod.aliases[name] = tgt.v
        return
    if v == 'global':
        p.next()
    elif v == 'constant':
        p.next()
        const = True
    else:
        raise IRError('global? ' + ln)
    ty = p.type()
    init = None
    if not p.eof() and not p.at(','):
        init = p.value(ty)
    mod.globals[name] = Global(name, ty, init, const, linkage, ln)


def _parse_fhead(ln, body, mod, is_decl):
    toks = tokenize(ln)
    p = P(toks, mod, ln)
    p.next()  # define/declare
    attrs = set()
    while True:
        k, v = p.peek()
        if k == 'id' and (v in LINKAGE or v in MISC_PREFIX):
            p.next()
            attrs.add(v)
        elif k == 'id' and (v in PARAM_ATTRS or v in PARAM_ATTRS_ARG):
            p.skip_param_attrs()
        else:
            break
    # return type: the type parser would swallow "(...)" as a function type, so
    # parse the return type up to the function name manually
    j = p.i
    while toks[j][0] != 'glob':
        j += 1
    rp = P(toks[p.i:j], mod, ln)
    ret = rp.type()
    p.i = j
    name = _unq(p.next()[1])
    p.expect('(')
    params = []
    va = False
    idx = 0
    while not p.at(')'):
        if p.at('...'):
            p.next()
            va = True
        else:
            t = p.type()
            pa = p.skip_param_attrs()
            if p.peek()[0] == 'local':
                pn = _unq(p.next()[1])
            else:
                pn = str(idx)
            params.append((t, pn, pa))
            idx += 1
        if not p.accept(','):
            break
    p.expect(')')
    while not p.eof():
        k, v = p.next()
        if k == 'attr':
            attrs.add(v)
        elif k == 'id':
            attrs.add(v)
        if v == '{':
            break
    return Function(name, ret, params, va, attrs, body, mod, is_decl)


# ---------------------------------------------------------------- function bodies
def _parse_body(f):
    mod = f.mod
    blocks = []
    # implicit entry label = number of params if unnamed
    cur = None
    nparam = len(f.params)
    lines = f._lines
    i = 0
    n = len(lines)
    lab = re.compile(r'^((?:"(?:[^"\\]|\\.)*"|[-a-zA-Z$._0-9]+)):')
    while i < n:
        ln = lines[i]
        i += 1
        s = ln.strip()
        if not s or s[0] == ';':
            continue
        m = lab.match(ln)
        if m:
            name = m.group(1)
            if name.startswith('"'):
                name = _unq('%' + name)
            cur = Block(name)
            blocks.append(cur)
            continue
        if cur is None:
            cur = Block(str(nparam) if all(p[1].isdigit() for p in f.params) or not f.params
                        else _entry_label(f))
            blocks.append(cur)
        # multi-line constructs
        if re.match(r'^(?:%\S+ = )?\s*(?:switch)\b', s) and s.endswith('['):
            while not lines[i].strip().startswith(']'):
                s += ' ' + lines[i].strip()
                i += 1
            s += ' ]'
            i += 1
        if i < n and lines[i].lstrip().startswith('to label'):
            s += ' ' + lines[i].strip()
            i += 1
        if ' landingpad ' in ' ' + s + ' ' and re.match(r'^%\S+ = landingpad', s):
            while i < n and re.match(r'^\s+(cleanup|catch|filter)\b', lines[i]):
                s += ' ' + lines[i].strip()
                i += 1
        ins = _parse_instr(s, mod)
        cur.instrs.append(ins)
    bm = {b.name: b for b in blocks}
    for b in blocks:
        for t in successors(b.instrs[-1]):
            if t not in bm:
                raise IRError('unknown label %s in %s' % (t, f.name))
            bm[t].preds.append(b.name)
    return blocks


def _entry_label(f):
    # unnamed entry block gets the next numeric id after the unnamed params
    k = 0
    for p in f.params:
        if p[1].isdigit():
            k = max(k, int(p[1]) + 1)
    return str(k)


def successors(ins):
    if ins.op == 'br':
        return ins.a['targets']
    if ins.op == 'switch':
        return [ins.a['default']] + [t for _, t in ins.a['cases']]
    if ins.op == 'invoke':
        return [ins.a['normal'], ins.a['unwind']]
    return []


def _skip_trailing_meta(p):
    # ", !tbaa !5, align 8 ..." -> collect align
    a = {}
    while p.accept(','):
        k, v = p.peek()
        if v == 'align':
            p.next()
            a['align'] = int(p.next()[1])
        elif k == 'meta':
            p.next()
            if p.peek()[0] == 'meta':
                p.next()
            else:
                p._meta(v)
        elif v == 'addrspace':
            p.next(); p.expect('('); p.next(); p.expect(')')
        else:
            raise IRError('trailing? %r in %s' % (v, p.line))
    return a


def _parse_call(p, res, op, line):
    a = {}
    while p.peek()[0] == 'id' and (p.peek()[1] in FMF or p.peek()[1] in MISC_PREFIX):
        p.next()
    p.skip_param_attrs()
    # return type (may be a full function type for varargs / fn-ptr calls)
    rty = p.type()
    if rty.kind == 'func':
        fty = rty
        rty = fty.ret
    elif rty.kind == 'ptr' and rty.elem.kind == 'func' and p.peek()[0] in ('local', 'glob') and False:
        fty = None
    else:
        fty = None
    callee = p.value(None)
    p.expect('(')
    args = []
    while not p.at(')'):
        if p.at('...'):
            p.next()
        else:
            args.append(p.tvalue())
        if not p.accept(','):
            break
    p.expect(')')
    attrs = set()
    while p.peek()[0] in ('attr', 'id') and p.peek()[1] not in ('to',):
        k, v = p.next()
        attrs.add(v)
    if p.at('['):  # operand bundle
        d = 0
        while True:
            x = p.next()[1]
            if x == '[':
                d += 1
            elif x == ']':
                d -= 1
                if d == 0:
                    break
    if op == 'invoke':
        p.expect('to')
        p.expect('label')
        a['normal'] = _unq(p.next()[1])
        p.expect('unwind')
        p.expect('label')
        a['unwind'] = _unq(p.next()[1])
    a['fty'] = fty
    a['cattrs'] = attrs
    _skip_trailing_meta(p)
    return Instr(op, res, rty, [callee] + args, a, line)


def _parse_instr(s, mod):
    toks = tokenize(s)
    p = P(toks, mod, s)
    res = None
    if p.peek()[0] == 'local' and p.peek(1)[1] == '=':
        res = _unq(p.next()[1])
        p.next()
    k, op = p.next()
    if op in ('tail', 'musttail', 'notail'):
        k, op = p.next()
    if op == 'ret':
        t = p.type()
        if t.kind == 'void':
            return Instr('ret', None, VOID, [], {}, s)
        v = p.value(t)
        return Instr('ret', None, VOID, [v], {}, s)
    if op == 'br':
        if p.accept('label'):
            return Instr('br', None, VOID, [], {'targets': [_unq(p.next()[1])]}, s)
        c = p.tvalue()
        p.expect(','); p.expect('label')
        t1 = _unq(p.next()[1])
        p.expect(','); p.expect('label')
        t2 = _unq(p.next()[1])
        return Instr('br', None, VOID, [c], {'targets': [t1, t2]}, s)
    if op == 'switch':
        c = p.tvalue()
        p.expect(','); p.expect('label')
        d = _unq(p.next()[1])
        p.expect('[')
        cases = []
        while not p.at(']'):
            cv = p.tvalue()
            p.expect(','); p.expect('label')
            cases.append((cv.v, _unq(p.next()[1])))
        return Instr('switch', None, VOID, [c], {'default': d, 'cases': cases}, s)
    if op == 'unreachable':
        return Instr('unreachable', None, VOID, [], {}, s)
    if op == 'resume':
        return Instr('resume', None, VOID, [p.tvalue()], {}, s)
    if op in ('call', 'invoke'):
        return _parse_call(p, res, op, s)
    if op in BINOPS:
        fl = set()
        while p.peek()[0] == 'id' and (p.peek()[1] in ('nsw', 'nuw', 'exact') or p.peek()[1] in FMF):
            fl.add(p.next()[1])
        t = p.type()
        a = p.value(t)
        p.expect(',')
        b = p.value(t)
        _skip_trailing_meta(p)
        return Instr(op, res, t, [a, b], {'flags': fl}, s)
    if op == 'fneg':
        while p.peek()[1] in FMF:
            p.next()
        t = p.type()
        a = p.value(t)
        return Instr('fneg', res, t, [a], {}, s)
    if op in CASTS:
        v = p.tvalue()
        p.expect('to')
        t2 = p.type()
        _skip_trailing_meta(p)
        return Instr(op, res, t2, [v], {}, s)
    if op in ('icmp', 'fcmp'):
        while p.peek()[1] in FMF:
            p.next()
        pred = p.next()[1]
        t = p.type()
        a = p.value(t)
        p.expect(',')
        b = p.value(t)
        _skip_trailing_meta(p)
        rt = I1 if t.kind != 'vec' else VecT(t.n, I1)
        return Instr(op, res, rt, [a, b], {'pred': pred}, s)
    if op == 'alloca':
        p.accept('inalloca')
        t = p.type()
        cnt = None
        al = {}
        while p.accept(','):
            if p.at('align'):
                p.next()
                al['align'] = int(p.next()[1])
            elif p.peek()[0] == 'meta':
                p.next(); p.next()
            elif p.at('addrspace'):
                p.next(); p.expect('('); p.next(); p.expect(')')
            else:
                cnt = p.tvalue()
        return Instr('alloca', res, PtrT(t), [cnt] if cnt else [], dict(al, aty=t), s)
    if op == 'load':
        at = p.accept('atomic')
        vol = p.accept('volatile')
        t = p.type()
        p.expect(',')
        ptr = p.tvalue()
        if at:
            while p.peek()[0] == 'id' and p.peek()[1] != 'align':
                p.next()
        a = _skip_trailing_meta(p)
        return Instr('load', res, t, [ptr], dict(a, volatile=vol), s)
    if op == 'store':
        at = p.accept('atomic')
        vol = p.accept('volatile')
        v = p.tvalue()
        p.expect(',')
        ptr = p.tvalue()
        if at:
            while p.peek()[0] == 'id' and p.peek()[1] != 'align':
                p.next()
        a = _skip_trailing_meta(p)
        return Instr('store', None, VOID, [v, ptr], dict(a, volatile=vol), s)
    if op == 'getelementptr':
        inb = p.accept('inbounds')
        sty = p.type()
        p.expect(',')
        ops = [p.tvalue()]
        while p.at(',') and p.peek(1)[0] != 'meta':
            p.next()
            ops.append(p.tvalue())
        _skip_trailing_meta(p)
        rt = gep_type(mod, sty, ops[1:])
        if ops[0].ty.kind == 'vec':
            raise IRError('vector gep')
        return Instr('getelementptr', res, PtrT(rt), ops, {'sty': sty, 'inbounds': inb}, s)
    if op == 'phi':
        while p.peek()[1] in FMF:
            p.next()
        t = p.type()
        inc = []
        while True:
            p.expect('[')
            v = p.value(t)
            p.expect(',')
            lbl = _unq(p.next()[1])
            p.expect(']')
            inc.append((v, lbl))
            if not p.accept(','):
                break
            if p.peek()[0] == 'meta':
                break
        return Instr('phi', res, t, [v for v, _ in inc], {'labels': [l for _, l in inc]}, s)
    if op == 'select':
        while p.peek()[1] in FMF:
            p.next()
        c = p.tvalue()
        p.expect(',')
        a = p.tvalue()
        p.expect(',')
        b = p.tvalue()
        _skip_trailing_meta(p)
        return Instr('select', res, a.ty, [c, a, b], {}, s)
    if op == 'extractvalue':
        v = p.tvalue()
        idx = []
        while p.accept(','):
            if p.peek()[0] == 'meta':
                break
            idx.append(int(p.next()[1]))
        t = v.ty
        for ix in idx:
            t = mod.resolve(t)
            t = t.fields[ix] if t.kind == 'struct' else t.elem
        return Instr('extractvalue', res, t, [v], {'idx': idx}, s)
    if op == 'insertvalue':
        v = p.tvalue()
        p.expect(',')
        e = p.tvalue()
        idx = []
        while p.accept(','):
            if p.peek()[0] == 'meta':
                break
            idx.append(int(p.next()[1]))
        return Instr('insertvalue', res, v.ty, [v, e], {'idx': idx}, s)
    if op == 'landingpad':
        t = p.type()
        cl = []
        cleanup = False
        while not p.eof():
            k, v = p.next()
            if v == 'cleanup':
                cleanup = True
            elif v == 'catch':
                cl.append(('catch', p.tvalue()))
            elif v == 'filter':
                cl.append(('filter', p.tvalue()))
            else:
                raise IRError('landingpad: ' + s)
        return Instr('landingpad', res, t, [], {'cleanup': cleanup, 'clauses': cl}, s)
    if op == 'freeze':
        v = p.tvalue()
        return Instr('freeze', res, v.ty, [v], {}, s)
    if op == 'atomicrmw':
        p.accept('volatile')
        bop = p.next()[1]
        ptr = p.tvalue()
        p.expect(',')
        v = p.tvalue()
        return Instr('atomicrmw', res, v.ty, [ptr, v], {'bop': bop}, s)
    if op == 'cmpxchg':
        p.accept('weak'); p.accept('volatile')
        ptr = p.tvalue(); p.expect(',')
        c = p.tvalue(); p.expect(',')
        nv = p.tvalue()
        return Instr('cmpxchg', res, StructT(None, [c.ty, I1]), [ptr, c, nv], {}, s)
    if op == 'fence':
        return Instr('fence', None, VOID, [], {}, s)
    if op in ('extractelement', 'insertelement', 'shufflevector'):
        raise IRError('vector instruction: ' + s)
    if op == 'va_arg':
        raise IRError('va_arg')
    raise IRError('instruction? ' + s)


def gep_type(mod, sty, idx):
    t = sty
    for ix in idx[1:]:
        t = mod.resolve(t)
        if t.kind == 'struct':
            if ix.k != 'int':
                raise IRError('struct gep with variable index')
            t = t.fields[ix.v]
        elif t.kind in ('arr', 'vec'):
            t = t.elem
        else:
            raise IRError('gep into %s' % t.s())
    return t


def load(path):
    with open(path) as fh:
        return parse_module(fh.read())


if __name__ == '__main__':
    import sys
    import time
    t0 = time.time()
    m = load(sys.argv[1])
    nins = 0
    bad = 0
    for f in m.funcs.values():
        if f.is_decl:
            continue
        try:
            for b in f.blocks:
                nins += len(b.instrs)
        except IRError as e:
            bad += 1
            print('ERR', f.name, e)
    print('structs', len(m.structs), 'globals', len(m.globals), 'funcs', len(m.funcs),
          'instrs', nins, 'bad', bad, 'sec %.1f' % (time.time() - t0))
