/* native runtime, linked both with the gcc build of the generated C (f_vf_* names)
   and with the g++ build of the harness against the real sources (vf_* names).
   Inputs come either from a replay file (VF_REPLAY=path: one "<type> <value>" per
   line, values in call order) or from a PRNG stream (VF_STREAM=<n>).
   Every vf_assert outcome and vf_out_* value is printed; the two builds must print
   the same text (translator validation) / the replay must hit the failing assert. */
#include <stdint.h>
#include <stdio.h>
#include <stdlib.h>
#include <string.h>
#include <math.h>
#ifdef __cplusplus
#define _Bool bool
extern "C" {
#endif
int vf_exc; void* vf_exc_obj; int vf_exc_sel;
static FILE* rf; static int inited; static uint64_t st; static int nfail;
static void init(void) {
  if (inited) return; inited = 1;
  const char* p = getenv("VF_REPLAY");
  if (p) { rf = fopen(p, "r"); if (!rf) { perror(p); exit(3); } }
  const char* s = getenv("VF_STREAM");
  st = s ? strtoull(s, 0, 10) * 0x9E3779B97F4A7C15ULL + 12345 : 1;
}
static uint64_t rnd(void) { st += 0x9E3779B97F4A7C15ULL; uint64_t z = st;
  z = (z ^ (z >> 30)) * 0xBF58476D1CE4E5B9ULL; z = (z ^ (z >> 27)) * 0x94D049BB133111EBULL; return z ^ (z >> 31); }
static int rd(const char* ty, char* buf) {
  char t[32];
  if (!rf) return 0;
  if (fscanf(rf, "%31s %95s", t, buf) != 2) { printf("REPLAY-EXHAUSTED\n"); exit(4); }
  (void)ty;
  return 1;
}
static long small(void) { uint64_t r = rnd(); switch (r & 7) { case 0: return (long)(rnd() % 3) - 1; case 1: case 2: case 3: return (long)(rnd() % 7);
  case 4: return (long)(rnd() % 17) - 8; case 5: return (long)(rnd() % 1000) - 500; case 6: return (long)(int32_t)rnd(); default: return (long)(rnd() % 4); } }
int vf_nondet_int(void) { char b[96]; init(); if (rd("int", b)) return (int)strtol(b, 0, 10); return (int)small(); }
unsigned vf_nondet_uint(void) { char b[96]; init(); if (rd("uint", b)) return (unsigned)strtoul(b, 0, 10); return (unsigned)small(); }
long vf_nondet_long(void) { char b[96]; init(); if (rd("long", b)) return strtol(b, 0, 10); return small(); }
unsigned char vf_nondet_uchar(void) { char b[96]; init(); if (rd("uchar", b)) return (unsigned char)strtoul(b, 0, 10); return (unsigned char)rnd(); }
_Bool vf_nondet_bool(void) { char b[96]; init(); if (rd("bool", b)) return strtol(b, 0, 10) != 0; return rnd() & 1; }
static double dbl_of(const char* b) { if (b[0]=='0' && b[1]=='b') { uint64_t u = 0; for (const char* p = b+2; *p; p++) u = (u<<1) | (uint64_t)(*p=='1'); double d; memcpy(&d,&u,8); return d; } return strtod(b, 0); }
double vf_nondet_double(void) { char b[96]; init(); if (rd("double", b)) return dbl_of(b);
  uint64_t r = rnd(); switch (r % 10) { case 0: return 0.0; case 1: return (double)small(); case 2: return (double)small() / 4.0; case 3: return 1.234e30;
  case 4: return NAN; case 5: return (double)small() * 1e-11; case 6: { double d; uint64_t u = rnd(); memcpy(&d,&u,8); return d; } case 7: return INFINITY; default: return (double)small() / 8.0; } }
int vf_range(int lo, int hi) { char b[96]; init(); if (rd("int", b)) { int v = (int)strtol(b,0,10); if (v < lo || v > hi) { printf("REJECT\n"); exit(0);} return v; }
  return lo + (int)(rnd() % (uint64_t)((long)hi - lo + 1)); }
double vf_grid_double(int m) { char b[96]; init(); if (rd("int", b)) { int v = (int)strtol(b,0,10); if (v < -m || v > m) { printf("REJECT\n"); exit(0);} return (double)v; }
  int span = (rnd() & 3) ? (m < 6 ? m : 6) : m; return (double)((long)(rnd() % (uint64_t)(2L*span+1)) - span); }
double vf_finite_double(void) { char b[96]; init(); if (rd("double", b)) { double d = dbl_of(b); if (!(d==d && d<1e300 && d>-1e300)) { printf("REJECT\n"); exit(0);} return d; }
  for (;;) { double d = vf_nondet_double(); if (d==d && d<1e300 && d>-1e300) return d; } }
void vf_assume(_Bool c) { if (!c) { printf("REJECT\n"); exit(0); } }
void vf_assert_(_Bool c, const char* id) { printf("A %s %d\n", id, (int)c); if (!c) nfail++; }
void vf_witness(void) {}
void vf_split(_Bool c) { (void)c; }

void vf_out_int(long v) { printf("O %ld\n", v); }
void vf_out_double(double v) { uint64_t u; memcpy(&u,&v,8); if (v != v) printf("O nan\n"); else printf("O %016llx\n", (unsigned long long)u); }
int vf_failures(void) { return nfail; }
/* called by native_main after the entries: a replay that was not consumed exactly means the harness
   draws inputs on a data-dependent path (the solver's input list is then misaligned) */
void vf_replay_end(void) { char t[32], b[96]; if (rf && fscanf(rf, "%31s %95s", t, b) == 2) printf("REPLAY-LEFTOVER\n"); }
/* names used by the generated C */
uint32_t f_vf_nondet_int(void) { return (uint32_t)vf_nondet_int(); }
uint32_t f_vf_nondet_uint(void) { return vf_nondet_uint(); }
uint64_t f_vf_nondet_long(void) { return (uint64_t)vf_nondet_long(); }
uint8_t f_vf_nondet_uchar(void) { return vf_nondet_uchar(); }
_Bool f_vf_nondet_bool(void) { return vf_nondet_bool(); }
double f_vf_nondet_double(void) { return vf_nondet_double(); }
uint32_t f_vf_range(uint32_t lo, uint32_t hi) { return (uint32_t)vf_range((int)lo, (int)hi); }
double f_vf_grid_double(uint32_t m) { return vf_grid_double((int)m); }
double f_vf_finite_double(void) { return vf_finite_double(); }
void vf_assert_rt(_Bool c, const char* id) { vf_assert_(c, id); }
void vf_assume_rt(_Bool c) { vf_assume(c); }
void vf_witness_rt(void) {}
void vf_nuw(_Bool ok) { if (!ok) printf("NUW-OVERFLOW\n"); }
void f_vf_out_int(uint64_t v) { vf_out_int((long)v); }
void f_vf_out_double(double v) { vf_out_double(v); }
#ifdef __cplusplus
}
#endif
