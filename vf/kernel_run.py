#!/usr/local/bin/python3-vt
"""Decide one kernel at one tier; write build/k/<id>/<tier>/result.json.
usage: kernel_run.py <kernel-id> <tier> [seed] [extra -D defines...]"""
import json
import os
import random
import sys
import time
import traceback
from fractions import Fraction

sys.path.insert(0, os.path.dirname(os.path.abspath(__file__)))
import pipeline as P          # noqa: E402
import ir_parse               # noqa: E402
import kernels                # noqa: E402


def model_inputs(eng, model_vals):
    out = []
    for (kind, v), mv in zip(eng.inputs, model_vals):
        val = Fraction(mv)
        if kind in ('double',):
            f = float(Fraction(val))
            out.append(('double', f.hex(), str(val)))
        elif kind == 'bool':
            out.append(('bool', '1' if val else '0', str(val)))
        else:
            out.append(('int', str(int(val)), str(val)))
    return out


def write_replay(path, inputs):
    with open(path, 'w') as f:
        for it in inputs:
            f.write('%s %s\n' % (it[0], it[1]))


class ConcGen:
    """on-demand concrete inputs for translator validation (values recorded for the native run)."""

    def __init__(self, seed, dbl_mode):
        self.r = random.Random(seed)
        self.dbl_mode = dbl_mode

    def small(self):
        r = self.r
        c = r.randrange(8)
        if c == 0:
            return r.randrange(3) - 1
        if c in (1, 2, 3):
            return r.randrange(7)
        if c == 4:
            return r.randrange(17) - 8
        if c == 5:
            return r.randrange(1000) - 500
        if c == 6:
            return r.randrange(-2 ** 31, 2 ** 31)
        return r.randrange(4)

    def __call__(self, kind, lo, hi):
        r = self.r
        if kind == 'range':
            return r.randint(lo, hi)
        if kind == 'grid':
            span = min(hi, 6) if r.randrange(4) else hi
            return r.randint(-span, span)
        if kind == 'bool':
            return bool(r.randrange(2))
        if kind == 'double':
            if self.dbl_mode == 'int':
                return Fraction(r.randint(-8, 8))
            c = r.randrange(4)
            if c == 0:
                return Fraction(r.randint(-8, 8))
            if c == 1:
                return Fraction(r.randint(-40, 40), 8)
            if c == 2:
                return Fraction(r.randint(-1000, 1000), 64)
            return Fraction(r.randint(0, 16), 16)
        if kind == 'uchar':
            return r.randrange(-128, 128)
        return self.small()


def run_symex(k, tier, kdir, seed, res):
    import z3
    import symex
    t0 = time.time()
    ll = P.build_ir(k, tier, kdir)
    mod = ir_parse.load(ll)
    res['build_s'] = round(time.time() - t0, 2)
    entries = k['entries'] if 'entries' in k else [k['entry']]
    opts = dict(k.get('symex', {}))
    opts['contracts'] = k.get('contracts')
    if 'symex_opts' in k:
        opts.update(k['symex_opts'](symex, z3))
    all_obls = []
    witness_ok = True
    t0 = time.time()
    engs = []
    for e in entries:
        eng = symex.Engine(mod, opts)
        eng.run(e)
        engs.append((e, eng))
    res['symex_s'] = round(time.time() - t0, 2)
    tmo = k.get('timeout_ms', {}).get(tier, 120000)
    t0 = time.time()
    nq = 0
    for e, eng in engs:
        symex.discharge(eng, eng.obls, tmo, axioms=eng.axioms, jobs=k.get('jobs', int(os.environ.get('VF_SOLVER_JOBS', '6'))))
        nq += getattr(eng, 'queries_discharged', 0)
        if not eng.witness or not any(eng.feasible(w) for w in eng.witness):
            witness_ok = False
        nq += eng.stats['feas_queries']
    res['solver_s'] = round(time.time() - t0, 2)
    res['queries'] = nq
    res['witness_reachable'] = witness_ok
    res['functions_encoded'] = []
    enc = set()
    for e, eng in engs:
        enc |= eng.encoded | {e}
    for name in sorted(enc):
        f = mod.funcs.get(name)
        if f is not None and not f.is_decl:
            res['functions_encoded'].append({'name': name, 'ir_sha1': P.sha1('\n'.join(f._lines).encode())[:12],
                                             'ir_lines': len(f._lines)})
    obl_out = []
    cands = []
    inconclusive = []
    for e, eng in engs:
        res.setdefault('engine_stats', {})[e] = dict(eng.stats, steps=eng.steps, inputs=len(eng.inputs))
        if eng.fp_exact_check:
            res.setdefault('exactness_bridge', {})[e] = {
                'fp_add_sub_mul_ops': eng.exact_ops, 'proved_exact_in_ieee': eng.exact_ops - len(eng.inexact),
                'not_proved': eng.inexact[:10]}
            if eng.inexact and k.get('require_exact'):
                inconclusive.append('exactness bridge not established for %d operations' % len(eng.inexact))
        for o in eng.obls:
            rec = {'entry': e, 'kind': o.kind, 'id': o.ident, 'where': o.where, 'verdict': o.verdict,
                   'seconds': round(o.seconds, 3), 'trivial': getattr(o, 'trivial', False), 'cases': getattr(o, 'cases', 1)}
            obl_out.append(rec)
            if o.verdict == 'unsat':
                continue
            if o.verdict == 'sat':
                if o.kind in ('assert', 'ub'):
                    cands.append((e, eng, o))
                elif o.kind == 'exact':
                    res.setdefault('notes', []).append('exactness bridge NOT established: ' + o.ident)
                    if k.get('require_exact'):
                        inconclusive.append('exactness obligation fails: %s at %s' % (o.ident, o.where))
                elif o.kind == 'fpspecial' and k.get('fpspecial') == 'ignore':
                    pass
                elif o.kind == 'fpspecial' and k.get('fpspecial') == 'violation':
                    # the kernel's property is about IEEE special values (NaN / inf results): a reachable sqrt of a
                    # negative number or division by zero is a candidate violation, confirmed when the native run of
                    # the same inputs fails an assertion of the harness
                    cands.append((e, eng, o))
                else:
                    inconclusive.append('%s obligation reachable: %s at %s' % (o.kind, o.ident, o.where))
            else:
                if o.kind == 'exact' and not k.get('require_exact'):
                    res.setdefault('notes', []).append('exactness obligation undecided: ' + o.ident)
                else:
                    inconclusive.append('solver returned %s for %s "%s"' % (o.verdict, o.kind, o.ident))
    res['obligations'] = obl_out
    res['inconclusive'] = inconclusive
    return engs, cands


def run_cbmc(k, tier, kdir, seed, res):
    t0 = time.time()
    cfile, info = P.gen_c(k, tier, kdir)
    res['build_s'] = round(time.time() - t0, 2)
    res['functions_encoded'] = info['functions_encoded']
    res['externals'] = info['externals']
    tmo = k.get('timeout_s', {}).get(tier, 900)
    r = P.run_cbmc(k, tier, kdir, cfile, tmo)
    res['solver_s'] = r['solver_s']
    res['cbmc'] = {x: r.get(x) for x in ('cmd', 'wall_s', 'rss_kb', 'status', 'vars', 'clauses', 'messages')}
    res['queries'] = len(r['props'])
    obl_out = []
    cands = []
    inconclusive = []
    witness = False
    if r['status'] != 'done':
        inconclusive.append('cbmc %s: %s' % (r['status'], ' '.join(r['messages'])[:500]))
    for p in r['props']:
        d = p.get('description', '')
        stt = p['status']
        if d == 'VFWITNESS':
            witness = stt == 'FAILURE'
            continue
        kind = 'assert' if d.startswith('VF:') else 'infra' if d.startswith('VFINFRA') else \
               'unwind' if 'unwinding assertion' in d or 'recursion unwinding' in d else 'ub'
        ident = d[3:] if kind == 'assert' else d
        obl_out.append({'kind': kind, 'id': ident, 'where': p.get('property'), 'verdict': 'unsat' if stt == 'SUCCESS' else 'sat' if stt == 'FAILURE' else stt,
                        'trivial': False})
        if stt == 'SUCCESS':
            continue
        if stt != 'FAILURE':
            inconclusive.append('cbmc status %s for %s' % (stt, d))
            continue
        if kind in ('infra', 'unwind'):
            inconclusive.append('%s: %s (%s)' % (kind, d, p.get('property')))
            continue
        inputs = P.trace_inputs(p.get('trace', []))
        cands.append((kind, ident, [(a, b, b) for a, b in inputs], None))
    res['obligations'] = obl_out
    res['inconclusive'] = inconclusive
    res['witness_reachable'] = witness
    return cfile, cands


def validate_symex(k, tier, kdir, seed, mod, native_exe, res):
    import symex
    n = k.get('validate', {}).get(tier, 30)
    agree = 0
    rejected = 0
    mism = []
    entries = k['entries'] if 'entries' in k else [k['entry']]
    for i in range(n):
        gen = ConcGen(seed * 7919 + i, k.get('validate_doubles', 'dyadic'))
        opts = dict(k.get('symex', {}))
        if 'symex_opts' in k:
            import z3 as _z3
            opts.update(k['symex_opts'](symex, _z3))
        opts['concrete_inputs'] = gen
        opts['contracts'] = None
        seq = []
        inputs = []
        rej = False
        try:
            for e in entries:
                eng = symex.Engine(mod, opts)
                eng.run(e)
                inputs += eng.inputs
                if not eng.final_states:
                    rej = True
                    break
                for sid, c in eng.assert_seen:
                    seq.append('A %s %d' % (sid, 1 if c is True else 0))
                for o in eng.outputs:
                    seq.append('O %s' % (o,))
        except symex.Unsupported as ex:
            mism.append({'stream': i, 'error': 'symex(concrete): %s' % ex})
            continue
        rp = os.path.join(kdir, 'val_%d.txt' % i)
        recs = []
        for kind, v in inputs:
            if kind == 'double':
                recs.append(('double', float(v).hex()))
            elif kind == 'bool':
                recs.append(('bool', '1' if v else '0'))
            else:
                recs.append(('int', str(int(v))))
        write_replay(rp, recs)
        rc, out, err = P.run_native(native_exe, replay=rp)
        nat = [l for l in out.splitlines() if l.startswith('A ') or l.startswith('O ') or l.startswith('REJECT')]
        if rej:
            if nat and nat[-1].startswith('REJECT'):
                rejected += 1
                agree += 1
            else:
                mism.append({'stream': i, 'symex': 'REJECT', 'native': nat[-3:]})
            os.remove(rp)
            continue
        nat_a = [l for l in nat if l.startswith('A ')]
        sym_a = [l for l in seq if l.startswith('A ')]
        if nat_a == sym_a:
            agree += 1
            os.remove(rp)
        else:
            d = next((j for j in range(min(len(sym_a), len(nat_a))) if sym_a[j] != nat_a[j]), min(len(sym_a), len(nat_a)))
            mism.append({'stream': i, 'first_difference_at': d, 'symex': sym_a[d:d + 3], 'native': nat_a[d:d + 3],
                         'lengths': [len(sym_a), len(nat_a)], 'replay': rp})
    res['translator_validation'] = {'streams': n, 'agree': agree, 'rejected_by_assume': rejected, 'mismatches': mism[:5]}
    return not mism


def validate_cbmc(k, tier, kdir, seed, res, native_exe):
    n = k.get('validate', {}).get(tier, 60)
    cfile2, _ = P.gen_c(k, tier, kdir, use_contracts=False, cname='kernel_nocontract.c')
    gen_exe = P.native_c(k, tier, kdir, cfile2)
    agree = 0
    rej = 0
    mism = []
    for i in range(n):
        sid = seed * 7919 + i
        _, o1, _ = P.run_native(gen_exe, stream=sid)
        _, o2, _ = P.run_native(native_exe, stream=sid)
        l1, l2 = P.outcome_lines(o1), P.outcome_lines(o2)
        if l1 == l2:
            agree += 1
            if l1 and l1[-1].startswith('REJECT'):
                rej += 1
        else:
            mism.append({'stream': sid, 'generated_c': l1[:6], 'native': l2[:6]})
    res['translator_validation'] = {'streams': n, 'agree': agree, 'rejected_by_assume': rej, 'mismatches': mism[:5]}
    return not mism


def main():
    kid, tier = sys.argv[1], sys.argv[2]
    seed = int(sys.argv[3]) if len(sys.argv) > 3 else 0
    extra = sys.argv[4:]
    k = dict(kernels.KERNELS[kid])
    if extra:
        d = dict(k.get('defines', {}))
        a = dict(d.get('all', {}))
        for e in extra:
            name, _, val = e.partition('=')
            a[name] = val or '1'
        d['all'] = a
        k['defines'] = d
    sub = tier + ('_' + '_'.join(extra) if extra else '')
    kdir = os.path.join(P.BUILD, 'k', kid, sub)
    os.makedirs(kdir, exist_ok=True)
    res = {'kernel': kid, 'property': k['property'], 'tier': tier, 'engine': k['engine'], 'extra_defines': extra,
           'bounds': k.get('bounds', {}).get(tier, k.get('bounds', {}).get('quick', '')),
           'defines': {**k.get('defines', {}).get('all', {}), **k.get('defines', {}).get(tier, {})},
           'status': 'error', 'violations': [], 'spurious': [], 'inconclusive': []}
    t00 = time.time()
    try:
        native_exe = None
        if k['engine'] == 'symex':
            engs, cands = run_symex(k, tier, kdir, seed, res)
            cand_list = []
            for e, eng, o in cands:
                cand_list.append((o.kind, o.ident, model_inputs(eng, o.model_vals), e))
        else:
            cfile, cand_list = run_cbmc(k, tier, kdir, seed, res)
        do_native = k.get('native', True)
        if do_native and (cand_list or k.get('validate', {}).get(tier, 1) > 0):
            t0 = time.time()
            native_exe = P.native_cpp(k, tier, kdir)
            res['native_build_s'] = round(time.time() - t0, 2)
        # ---- replay every distinct candidate against the real code
        seen = set()
        san_exe = None
        for kind, ident, inputs, c_entry in cand_list:
            if (kind, ident, c_entry) in seen:
                continue
            seen.add((kind, ident, c_entry))
            rp = os.path.join(kdir, 'replay_%d.txt' % len(seen))
            write_replay(rp, inputs)
            rec = {'kind': kind, 'id': ident, 'entry': c_entry, 'replay': rp, 'inputs': [x[2] for x in inputs][:40]}
            if not do_native:
                rec['confirmed'] = None
                res['spurious'].append(rec)
                continue
            exe = native_exe
            if kind == 'ub':
                try:
                    if san_exe is None:
                        san_exe = P.native_cpp(k, tier, kdir, sanitize=True)
                    exe = san_exe
                except P.BuildError as ex:
                    rec['note'] = 'sanitizer build failed: %s' % str(ex)[:200]
            rc, out, err = P.run_native(exe, replay=rp, entry=c_entry)
            fails = P.failed_asserts(out)
            if 'REPLAY-LEFTOVER' in out or 'REPLAY-EXHAUSTED' in out:
                rec['note'] = 'replay misaligned: the harness draws nondet inputs on a data-dependent path; draw them unconditionally'
            rec['native_failed_asserts'] = fails[:5]
            rec['native_rc'] = rc
            if kind == 'assert':
                ok = ident in fails
            elif kind == 'fpspecial':
                ok = bool(fails)
            else:
                ok = 'runtime error' in err or 'AddressSanitizer' in err or rc < 0
                rec['native_stderr'] = err[-600:]
            rec['confirmed'] = ok
            (res['violations'] if ok else res['spurious']).append(rec)
        # ---- translator validation
        if do_native and native_exe and k.get('validate', {}).get(tier, 1) > 0:
            t0 = time.time()
            if k['engine'] == 'symex':
                mod = ir_parse.load(os.path.join(kdir, 'kernel.ll'))
                okv = validate_symex(k, tier, kdir, seed, mod, native_exe, res)
            else:
                okv = validate_cbmc(k, tier, kdir, seed, res, native_exe)
            res['validate_s'] = round(time.time() - t0, 2)
            if not okv:
                res['inconclusive'].append('translator validation mismatch (see translator_validation)')
        if not res.get('witness_reachable'):
            res['inconclusive'].append('vacuity: witness not reachable')
        if res['spurious']:
            res['inconclusive'].append('counterexample(s) did not reproduce natively (spurious)')
        res['status'] = 'violation' if res['violations'] else ('inconclusive' if res['inconclusive'] else 'pass')
    except (P.BuildError, ir_parse.IRError) as ex:
        res['status'] = 'error'
        res['error'] = str(ex)[-3000:]
    except Exception as ex:  # Unsupported and anything unexpected
        res['status'] = 'error'
        res['error'] = '%s: %s\n%s' % (type(ex).__name__, ex, traceback.format_exc()[-2500:])
    res['wall_s'] = round(time.time() - t00, 2)
    # disk hygiene: intermediates are regenerated on every run (raw IR, objects, native binaries: ~100 MB per kernel)
    if not os.environ.get('VF_KEEP'):
        import glob as _glob
        for pat in ('*.raw.ll', 'linked.ll', '*.o', 'real_native', 'real_native_san', 'gen_native', 'native_main.cpp', 'cbmc.json'):
            for fpath in _glob.glob(os.path.join(kdir, pat)):
                try:
                    os.remove(fpath)
                except OSError:
                    pass
        kl = os.path.join(kdir, 'kernel.ll')
        if os.path.exists(kl) and os.path.getsize(kl) > 3000000 and res['status'] == 'pass':
            os.remove(kl)
    with open(os.path.join(kdir, 'result.json'), 'w') as f:
        json.dump(res, f, indent=1, default=str)
    print('%s %s %s wall=%.1fs' % (kid, tier, res['status'], res['wall_s']))
    if res['status'] == 'error':
        print(res.get('error', '')[:3000])
    return 0


if __name__ == '__main__':
    sys.exit(main())
