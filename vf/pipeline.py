"""Build pipeline: /repo sources + harness -> LLVM IR -> (E1) C -> cbmc, native builds,
translator validation and counterexample replay."""
import hashlib
import json
import os
import re
import subprocess
import sys
import time

VERIF = os.path.dirname(os.path.dirname(os.path.abspath(__file__)))
REPO = os.environ.get('VF_REPO', '/repo')
BUILD = os.environ.get('VF_BUILD', os.path.join(VERIF, 'build'))
REPO_BUILD = os.environ.get('VF_REPO_BUILD', '/repo/_build')   # the repository's own build (objects for native linking)
sys.path.insert(0, os.path.join(VERIF, 'vf'))

import ir_parse  # noqa: E402
import ir2c      # noqa: E402

INC = ['-I' + REPO + '/include', '-I' + REPO_BUILD, '-I' + VERIF + '/build/include',
       '-I' + REPO + '/3rd-party/csparse', '-I' + REPO + '/3rd-party/gmtsph',
       '-isystem', '/usr/include/eigen3', '-I' + VERIF + '/vf', '-I' + REPO + '/src']
DEFS = ['-DNDEBUG', '-DNLOPT_DLL', '-Dshared_EXPORTS', '-DEIGEN_DONT_VECTORIZE']
CLANG_RAW = ['clang++-14', '-std=gnu++20', '-O1', '-Xclang', '-disable-llvm-passes', '-ffp-contract=off',
             '-fno-access-control', '-fno-threadsafe-statics', '-fno-builtin', '-S', '-emit-llvm', '-w'] + DEFS
GXX = ['g++', '-std=gnu++20', '-O0', '-g0', '-fno-access-control', '-w', '-ffp-contract=off'] + DEFS
LIBDIR = REPO_BUILD + '/RelWithDebInfo'


class BuildError(Exception):
    pass


def sh(cmd, timeout=None, cwd=None, env=None, check=True, inp=None):
    t0 = time.time()
    p = subprocess.run(cmd, stdout=subprocess.PIPE, stderr=subprocess.PIPE, timeout=timeout, cwd=cwd,
                       env=env, input=inp)
    dt = time.time() - t0
    if check and p.returncode != 0:
        raise BuildError('command failed (%d): %s\n%s' % (p.returncode, ' '.join(cmd)[:2000],
                                                        p.stderr.decode('utf8', 'replace')[-4000:]))
    return p.returncode, p.stdout, p.stderr, dt


def sha1(b):
    return hashlib.sha1(b).hexdigest()


def ensure_dirs(kdir):
    os.makedirs(kdir, exist_ok=True)
    inc = os.path.join(BUILD, 'include')
    os.makedirs(inc, exist_ok=True)
    # generated headers of the repo build, regenerated if _build is absent
    if not os.path.exists(REPO_BUILD + '/gstlearn_export.hpp'):
        with open(inc + '/gstlearn_export.hpp', 'w') as f:
            f.write('#pragma once\n#define GSTLEARN_EXPORT\n#define GSTLEARN_NO_EXPORT\n'
                    '#define GSTLEARN_DEPRECATED __attribute__((__deprecated__))\n'
                    '#define GSTLEARN_TEMPLATE_EXPORT\n')
    if not os.path.exists(REPO_BUILD + '/version.h'):
        with open(inc + '/version.h', 'w') as f:
            f.write('#pragma once\n#define GSTLEARN_VERSION "0.0.0"\n#define GSTLEARN_DATE "verif"\n')


def defs_of(k, tier):
    d = dict(k.get('defines', {}).get('all', {}))
    d.update(k.get('defines', {}).get(tier, {}))
    return ['-D%s=%s' % (a, b) for a, b in sorted(d.items())]


def raw_ir(src, out, extra):
    sh(CLANG_RAW + INC + extra + [src, '-o', out])


def build_ir(k, tier, kdir):
    """harness + real TUs -> one optimised module restricted to what the entry reaches."""
    ensure_dirs(kdir)
    extra = defs_of(k, tier) + ['-DVF_SOLVER=1'] + k.get('cxxflags', [])
    jobs = []
    h_ll = os.path.join(kdir, 'harness.raw.ll')
    jobs.append((os.path.join(VERIF, 'harness', k['harness']), h_ll, extra))
    tu_lls = []
    for tu in k.get('tus', []):
        o = os.path.join(kdir, re.sub(r'[^A-Za-z0-9]', '_', tu) + '.raw.ll')
        tu_lls.append(o)
        jobs.append((os.path.join(REPO, tu), o, k.get('cxxflags', [])))
    procs = []
    for src, out, ex in jobs:
        procs.append((src, subprocess.Popen(CLANG_RAW + INC + ex + [src, '-o', out],
                                            stdout=subprocess.PIPE, stderr=subprocess.PIPE)))
    for src, p in procs:
        o, e = p.communicate()
        if p.returncode != 0:
            raise BuildError('clang failed on %s:\n%s' % (src, e.decode('utf8', 'replace')[-4000:]))
    linked = os.path.join(kdir, 'linked.ll')
    if tu_lls:
        sh(['llvm-link-14', '-S'] + tu_lls + ['-override', h_ll, '-o', linked])
    else:
        sh(['cp', h_ll, linked])
    # static constructors are not executed by a kernel: drop them (stated in evidence)
    txt = open(linked).read()
    txt = re.sub(r'^@llvm\.global_ctors = .*$', '', txt, flags=re.M)
    txt = re.sub(r'^@llvm\.global_dtors = .*$', '', txt, flags=re.M)
    open(linked, 'w').write(txt)
    entries = k['entries'] if 'entries' in k else [k['entry']]
    keep = entries + k.get('keep', []) + list(k.get('contracts', {}).values())
    opt = os.path.join(kdir, 'kernel.ll')
    sh(['opt-14', '-S', '-passes=internalize,globaldce', '-internalize-public-api-list=' + ','.join(keep),
        linked, '-o', opt + '.1'])
    passes = k.get('passes', 'default<O1>')
    sh(['opt-14', '-S', '-passes=' + passes, '-vectorize-loops=false', '-vectorize-slp=false',
        '-disable-loop-unrolling', opt + '.1', '-o', opt])
    os.remove(opt + '.1')
    return opt


def gen_c(k, tier, kdir, use_contracts=True, cname='kernel.c'):
    ll = build_ir(k, tier, kdir)
    mod = ir_parse.load(ll)
    entries = k['entries'] if 'entries' in k else [k['entry']]
    text, cx = ir2c.translate(mod, entries, vcall_allow=k.get('vcalls', ()),
                              strict_nuw=k.get('strict_nuw', False),
                              contracts=k.get('contracts') if use_contracts else None)
    stubs_src = open(os.path.join(VERIF, 'vf', 'stubs.c')).read()
    have = set(re.findall(r'\bf_([A-Za-z0-9_]+)\s*\(', stubs_src))
    rt_src = open(os.path.join(VERIF, 'vf', 'rt_cbmc.c')).read()
    have |= set(re.findall(r'\bf_([A-Za-z0-9_]+)\s*\(', rt_src))
    kstub = k.get('cstubs')
    if kstub:
        have |= set(re.findall(r'\bf_([A-Za-z0-9_]+)\s*\(', open(os.path.join(VERIF, 'harness', kstub)).read()))
    missing = []
    for e in sorted(cx.externals):
        if e.startswith('@'):
            continue
        if ir2c.san(e) not in have and e not in ir2c.LIBM1 | ir2c.LIBM2:
            missing.append(e)
    if missing:
        raise BuildError('UNMODELLED external(s): ' + ', '.join(missing))
    main = ['', '/* ---- entry wrapper */', 'void vf_main(void) {']
    for e in entries:
        main.append('  f_%s();' % ir2c.san(e))
        main.append('  __CPROVER_assert(!vf_exc, "VF:uncaught exception escapes %s");' % e)
    main.append('}')
    cfile = os.path.join(kdir, cname)
    with open(cfile, 'w') as f:
        f.write(text)
        f.write('\n'.join(main))
        f.write('\n#ifdef VF_NATIVE_MAIN\n#include <stdio.h>\nint main(void) { vf_main(); printf("END exc=%d\\n", vf_exc); return 0; }\n#endif\n')
        f.write('\n#include "%s"\n' % os.path.join(VERIF, 'vf', 'stubs.c'))
        if kstub:
            f.write('#include "%s"\n' % os.path.join(VERIF, 'harness', kstub))
        f.write('#ifdef __CPROVER__\n#include "%s"\n#else\n#include "%s"\n#endif\n' % (
            os.path.join(VERIF, 'vf', 'rt_cbmc.c'), os.path.join(VERIF, 'vf', 'rt_native.c')))
    info = {
        'functions_encoded': [],
        'externals': sorted(cx.externals),
        'trap_stubs': len(cx.trap_stubs),
        'assert_ids': cx.assert_ids,
    }
    for name in cx.encoded:
        fobj = mod.funcs[name]
        info['functions_encoded'].append({'name': name, 'ir_sha1': sha1('\n'.join(fobj._lines).encode())[:12],
                                          'ir_lines': len(fobj._lines)})
    return cfile, info


# ------------------------------------------------------------------ cbmc
CBMC_FLAGS = ['--unwinding-assertions', '--pointer-overflow-check', '--undefined-shift-check',
              '--signed-overflow-check', '--drop-unused-functions', '--no-malloc-may-fail',
              '--no-built-in-assertions', '--trace', '--json-ui', '--function', 'vf_main',
              '--no-standard-checks', '--bounds-check', '--pointer-check', '--div-by-zero-check',
              '--pointer-primitive-check', '--verbosity', '8']


def run_cbmc(k, tier, kdir, cfile, timeout):
    unwind = k.get('unwind', {}).get(tier, k.get('unwind', {}).get('quick', 8))
    cmd = ['cbmc', cfile, '-DVF_WITNESS', '--unwind', str(unwind)] + CBMC_FLAGS
    for lp, n in k.get('unwindset', {}).get(tier, {}).items():
        cmd += ['--unwindset', '%s:%d' % (lp, n)]
    be = k.get('backend', 'default')
    if be == 'cadical':
        cmd += ['--sat-solver', 'cadical']
    elif be == 'kissat':
        cmd += ['--external-sat-solver', 'kissat']
    cmd += k.get('cbmc_flags', [])
    cmd = ['/usr/bin/time', '-f', 'VFRSS %M', 'timeout', str(timeout)] + cmd
    t0 = time.time()
    p = subprocess.run(cmd, stdout=subprocess.PIPE, stderr=subprocess.PIPE)
    wall = time.time() - t0
    out = p.stdout.decode('utf8', 'replace')
    err = p.stderr.decode('utf8', 'replace')
    with open(os.path.join(kdir, 'cbmc.json'), 'w') as f:
        f.write(out)
    rss = 0
    m = re.search(r'VFRSS (\d+)', err)
    if m:
        rss = int(m.group(1))
    res = {'cmd': ' '.join(cmd[5:]), 'wall_s': round(wall, 2), 'rss_kb': rss, 'rc': p.returncode,
           'props': [], 'solver_s': 0.0, 'status': 'error', 'messages': []}
    if p.returncode == 124:
        res['status'] = 'timeout'
        return res
    try:
        js = json.loads(out)
    except Exception:
        res['messages'] = [out[-3000:], err[-3000:]]
        return res
    for item in js:
        if 'messageText' in item:
            mt = item['messageText']
            mm = re.search(r'Runtime (?:Solver|decision procedure): ([0-9.]+)s', mt)
            if mm:
                res['solver_s'] += float(mm.group(1))
            if item.get('messageType') == 'ERROR':
                res['messages'].append(mt)
            mm = re.search(r'(\d+) variables, (\d+) clauses', mt)
            if mm:
                res['vars'] = int(mm.group(1))
                res['clauses'] = int(mm.group(2))
        if 'result' in item:
            for r in item['result']:
                res['props'].append(r)
            res['status'] = 'done'
        if 'cProverStatus' in item:
            res['cprover'] = item['cProverStatus']
    return res


def trace_inputs(trace):
    """(type, value) list of the logged nondet inputs, in call order."""
    out = []
    for st in trace:
        if st.get('stepType') != 'assignment':
            continue
        lhs = st.get('lhs', '')
        if not lhs.startswith('vf_in_'):
            continue
        if not st.get('sourceLocation', {}).get('function', '').startswith('f_vf_'):
            continue
        ty = lhs[len('vf_in_'):]
        v = st.get('value', {})
        if ty == 'double':
            b = v.get('binary')
            out.append(('double', '0b' + b if b else str(v.get('data'))))
        elif ty == 'bool':
            d = v.get('data')
            out.append(('bool', '1' if str(d).lower() in ('true', '1') else '0'))
        else:
            out.append((ty, str(v.get('data')).rstrip('ulUL')))
    return out


# ------------------------------------------------------------------ native builds
def native_c(k, tier, kdir, cfile):
    exe = os.path.join(kdir, 'gen_native')
    sh(['gcc', '-O1', '-w', '-fwrapv', '-ffp-contract=off', '-DVF_NATIVE_MAIN', '-DVF_WITNESS', cfile, '-o', exe, '-lm'])
    return exe


def native_cpp(k, tier, kdir, sanitize=False):
    """g++ build of the same harness against the real sources of the current tree."""
    exe = os.path.join(kdir, 'real_native' + ('_san' if sanitize else ''))
    extra = defs_of(k, tier) + k.get('cxxflags', [])
    san = ['-fsanitize=address,undefined', '-fno-sanitize=vptr', '-fno-sanitize-recover=undefined', '-fno-omit-frame-pointer'] if sanitize else []  # vptr check fires on raw-storage harness objects
    objs = []
    procs = []
    main_cpp = os.path.join(kdir, 'native_main.cpp')
    entries = k['entries'] if 'entries' in k else [k['entry']]
    with open(main_cpp, 'w') as f:
        f.write('#include <stdio.h>\nextern "C" {\n')
        for e in entries:
            f.write('void %s(void);\n' % e)
        f.write('void vf_replay_end(void);\n}\n#include <stdlib.h>\n#include <string.h>\nint main() {\n  const char* only = getenv("VF_ENTRY");\n')
        for e in entries:
            f.write('  if (!only || !strcmp(only, "%s")) { try { %s(); } catch (...) { printf("A uncaught exception escapes %s 0\\n"); printf("END exc=1\\n"); return 0; } }\n' % (e, e, e))
        f.write('  vf_replay_end();\n  printf("END exc=0\\n"); return 0; }\n')
    srcs = [(os.path.join(VERIF, 'harness', k['harness']), 'harness.o', extra + ['-DVF_NATIVE=1']),
            (main_cpp, 'native_main.o', []),
            (os.path.join(VERIF, 'vf', 'rt_native.c'), 'rt_native.o', ['-x', 'c++'])]
    for tu in k.get('tus', []):
        if tu.endswith('.c'):
            srcs.append((os.path.join(REPO, tu), re.sub(r'[^A-Za-z0-9]', '_', tu) + '.o', ['-x', 'c++']))
        else:
            srcs.append((os.path.join(REPO, tu), re.sub(r'[^A-Za-z0-9]', '_', tu) + '.o', k.get('cxxflags', [])))
    for src, o, ex in srcs:
        op = os.path.join(kdir, ('san_' if sanitize else '') + o)
        objs.append(op)
        procs.append((src, subprocess.Popen(GXX + san + INC + ex + ['-c', src, '-o', op],
                                            stdout=subprocess.PIPE, stderr=subprocess.PIPE)))
    for src, p in procs:
        o, e = p.communicate()
        if p.returncode != 0:
            raise BuildError('g++ failed on %s:\n%s' % (src, e.decode('utf8', 'replace')[-4000:]))
    # symbols defined both by the harness (override) and by a real TU: weaken the TU's copy
    if k.get('tus'):
        _, o, _, _ = sh(['nm', '--defined-only', '-g', objs[0]])
        hs = set(l.split()[-1] for l in o.decode().splitlines() if l and l.split()[1] in 'TDBR')
        for tu_o in objs[3:]:
            _, o2, _, _ = sh(['nm', '--defined-only', '-g', tu_o])
            ts = set(l.split()[-1] for l in o2.decode().splitlines() if len(l.split()) == 3)
            both = sorted(hs & ts)
            if both:
                args = []
                for s in both:
                    args += ['-W', s]
                sh(['objcopy'] + args + [tu_o])
    link = ['g++'] + san + objs + ['-o', exe]
    if k.get('link_lib', True):
        link += [repo_archive(), REPO_BUILD + '/3rd-party/csparse/libcsparse.a',
                 REPO_BUILD + '/3rd-party/gmtsph/libgmtsph.a', '-lnlopt', '-lgomp', '-lpthread',
                 '-Wl,--allow-multiple-definition']
    link += ['-lm'] + k.get('ldflags', [])
    sh(link)
    return exe


def repo_archive():
    """thin archive over the object files of the repository's own build (everything that is
    not freshly compiled for a kernel is taken from there)"""
    a = os.path.join(BUILD, 'libgst_all.a')
    objdir = REPO_BUILD + '/CMakeFiles/shared.dir'
    if not os.path.exists(a) or os.path.getmtime(a) < os.path.getmtime(objdir):
        objs = []
        for root, _, files in os.walk(objdir):
            for f in files:
                if f.endswith('.o'):
                    objs.append(os.path.join(root, f))
        if not objs:
            raise BuildError('no object files under %s: build the repository first (setup_cmd)' % objdir)
        tmp = a + '.%d' % os.getpid()
        sh(['ar', 'rcsT', tmp] + sorted(objs))
        os.replace(tmp, a)
    return a


def run_native(exe, stream=None, replay=None, timeout=60, entry=None):
    env = dict(os.environ)
    env.pop('VF_REPLAY', None)
    env.pop('VF_STREAM', None)
    env.pop('VF_ENTRY', None)
    if entry is not None:
        env['VF_ENTRY'] = entry
    if stream is not None:
        env['VF_STREAM'] = str(stream)
    if replay is not None:
        env['VF_REPLAY'] = replay
    env['ASAN_OPTIONS'] = 'detect_leaks=0:abort_on_error=0'
    try:
        p = subprocess.run([exe], stdout=subprocess.PIPE, stderr=subprocess.PIPE, timeout=timeout, env=env)
    except subprocess.TimeoutExpired:
        return -9, 'TIMEOUT\n', ''
    return p.returncode, p.stdout.decode('utf8', 'replace'), p.stderr.decode('utf8', 'replace')


def write_replay(path, inputs):
    with open(path, 'w') as f:
        for ty, v in inputs:
            f.write('%s %s\n' % (ty, v))


def outcome_lines(out):
    return [l for l in out.splitlines() if l[:2] in ('A ', 'O ', 'RE', 'EN', 'NU', 'TI')]


def failed_asserts(out):
    r = []
    for l in out.splitlines():
        if l.startswith('A ') and l.endswith(' 0'):
            r.append(l[2:-2])
    return r
