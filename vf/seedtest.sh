#!/bin/bash
# usage: vf/seedtest.sh <patch.diff> <property> [tier] [--kernel K ...]
# Runs the property's check against a scratch worktree of /repo with the patch applied
# (VF_REPO override: /repo itself and /verif/evidence stay untouched), prints the verdict.
set -u
patch=$(readlink -f "$1"); prop=$2; tier=${3:-quick}; shift; shift; shift || true
wt=/tmp/seedwt.$$
git -C /repo worktree add -q --detach "$wt" HEAD || exit 3
trap 'git -C /repo worktree remove --force "$wt" >/dev/null 2>&1; rm -rf /tmp/seedbuild.$$ /tmp/seedev.$$' EXIT
git -C "$wt" apply "$patch" || { echo "patch does not apply"; exit 3; }
VF_REPO=$wt VF_BUILD=/tmp/seedbuild.$$ VF_EVIDENCE=/tmp/seedev.$$ /verif/check "$prop" --tier "$tier" "$@"
rc=$?
echo "seedtest: patch=$patch property=$prop tier=$tier exit=$rc"
exit $rc
