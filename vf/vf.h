// Harness-side interface shared by the three builds of a harness:
//  (1) clang -> LLVM IR -> ir2c.py -> cbmc / symex.py -> z3   (solver)
//  (2) g++ native against the real sources                     (replay, translator validation)
#pragma once
#include <stddef.h>
extern "C" {
int            vf_nondet_int(void);
unsigned       vf_nondet_uint(void);
long           vf_nondet_long(void);
unsigned char  vf_nondet_uchar(void);
bool           vf_nondet_bool(void);
double         vf_nondet_double(void);
void           vf_assume(bool c);
void           vf_assert_(bool c, const char* id);
void           vf_witness(void);
void           vf_split(bool c);       // case-split hint for the solver (no effect on semantics)
void           vf_out_int(long v);     // observable output (translator validation only)
void           vf_out_double(double v);
}
#define VF_STR2(x) #x
#define VF_STR(x) VF_STR2(x)
#define vf_assert(c) vf_assert_((c), #c " @" VF_STR(__LINE__))
#define vf_assert_id(c, id) vf_assert_((c), id)
extern "C" {
int    vf_range(int lo, int hi);      // arbitrary int in [lo, hi]
double vf_grid_double(int m);         // arbitrary integer-valued double, |v| <= m
double vf_finite_double(void);        // arbitrary finite, non-NaN double, |v| < 1e300
}
