"""E2: guarded symbolic execution of LLVM IR with exact arithmetic (z3 Int / Real).

 * iN values are mathematical integers in their signed range; every nsw/nuw operation and
   every operation that would wrap yields a side obligation ("no overflow"), so the Int
   reading coincides with the machine reading when all side obligations are discharged.
 * double values are Reals: the verdict is about the real-arithmetic reading of the
   compiled code (no NaN, no infinities, no rounding).  Where every operation's result is
   provably an integer below 2^53 the runner additionally discharges "exactness"
   obligations, which transfers the verdict to IEEE arithmetic.
 * memory: objects with byte offsets; cells are typed values; symbolic offsets become ite
   chains over the cells of the (concretely sized) object, with an in-bounds obligation.
 * control: states are scheduled along a weak topological order of each CFG and merged when
   they meet at the same program point with the same call stack.
Anything not modelled raises Unsupported: the kernel is rejected, never approximated.
"""
import itertools
import struct
import sys
import time
from fractions import Fraction

import z3

from ir_parse import IRError, successors

sys.setrecursionlimit(10000)


class Unsupported(Exception):
    pass


# ------------------------------------------------------------------ values
class Ptr:
    __slots__ = ('obj', 'off')

    def __init__(self, obj, off):
        self.obj = obj   # int object id, None = null, ('fn', name) = function
        self.off = off   # python int or z3 Int

    def __repr__(self):
        return 'Ptr(%r,%r)' % (self.obj, self.off)


class PIte:
    __slots__ = ('c', 'a', 'b')

    def __init__(self, c, a, b):
        self.c, self.a, self.b = c, a, b


NULL = Ptr(None, 0)


class Quot:
    """lazily divided real value num/den (den != 0 on the path): comparisons are cross-multiplied
    so that no division reaches the solver."""
    __slots__ = ('n', 'd')

    def __init__(self, n, d):
        self.n, self.d = n, d

    def __neg__(self):
        return Quot(-self.n if is_conc(self.n) else -zreal(self.n), self.d)


def is_conc(v):
    return isinstance(v, (int, Fraction, bool))


def zint(v):
    return z3.IntVal(v) if isinstance(v, int) and not isinstance(v, bool) else v


def zreal(v):
    if isinstance(v, Quot):
        return zreal(v.n) / zreal(v.d)
    if isinstance(v, Fraction):
        return z3.RealVal(v)
    if isinstance(v, int):
        return z3.RealVal(v)
    return v


def zbool(v):
    return z3.BoolVal(v) if isinstance(v, bool) else v


def p_and(a, b):
    if a is True:
        return b
    if b is True:
        return a
    if a is False or b is False:
        return False
    return z3.And(a, b)


def p_or(a, b):
    if a is False:
        return b
    if b is False:
        return a
    if a is True or b is True:
        return True
    return z3.Or(a, b)


def p_not(a):
    if isinstance(a, bool):
        return not a
    return z3.Not(a)


def same(a, b):
    if a is b:
        return True
    if is_conc(a) and is_conc(b):
        return type(a) == type(b) and a == b
    if isinstance(a, z3.ExprRef) and isinstance(b, z3.ExprRef):
        return a.eq(b)
    if isinstance(a, Ptr) and isinstance(b, Ptr):
        return a.obj == b.obj and same(a.off, b.off)
    if isinstance(a, Quot) and isinstance(b, Quot):
        return same(a.n, b.n) and same(a.d, b.d)
    if isinstance(a, (list, tuple)) and isinstance(b, (list, tuple)) and len(a) == len(b):
        return all(same(x, y) for x, y in zip(a, b))
    return False


def ite(c, a, b, ty=None):
    """value-level if-then-else (c is a z3 Bool or python bool)."""
    if c is True:
        return a
    if c is False:
        return b
    if same(a, b):
        return a
    if isinstance(a, (list, tuple)) and isinstance(b, (list, tuple)):
        return [ite(c, x, y) for x, y in zip(a, b)]
    if isinstance(a, (Ptr, PIte)) or isinstance(b, (Ptr, PIte)):
        if isinstance(a, Ptr) and isinstance(b, Ptr) and a.obj == b.obj:
            return Ptr(a.obj, ite(c, a.off, b.off))
        if not isinstance(a, (Ptr, PIte)) or not isinstance(b, (Ptr, PIte)):
            # pointer vs integer 0 / undef
            if a is UNDEF:
                return b
            if b is UNDEF:
                return a
            # integer 0 stored over / merged with a pointer cell is the null pointer
            if isinstance(a, int) and not isinstance(a, bool) and a == 0:
                return ite(c, NULL, b)
            if isinstance(b, int) and not isinstance(b, bool) and b == 0:
                return ite(c, a, NULL)
            raise Unsupported('merge of pointer and non-pointer')
        return PIte(c, a, b)
    if a is UNDEF:
        return b
    if b is UNDEF:
        return a
    if isinstance(a, Quot) or isinstance(b, Quot):
        qa = a if isinstance(a, Quot) else Quot(a, Fraction(1))
        qb = b if isinstance(b, Quot) else Quot(b, Fraction(1))
        return Quot(ite(c, qa.n, qb.n), ite(c, qa.d, qb.d))
    if isinstance(a, bool) or isinstance(b, bool) or z3.is_bool(a) or z3.is_bool(b):
        return z3.If(c, zbool(a), zbool(b))
    if isinstance(a, Fraction) or isinstance(b, Fraction) or (isinstance(a, z3.ExprRef) and a.is_real()) \
            or (isinstance(b, z3.ExprRef) and b.is_real()):
        return z3.If(c, zreal(a), zreal(b))
    return z3.If(c, zint(a), zint(b))


class Undef:
    def __repr__(self):
        return 'UNDEF'


UNDEF = Undef()


# ------------------------------------------------------------------ memory
class MemObj:
    __slots__ = ('size', 'cells', 'zero', 'kind', 'freed', 'name')

    def __init__(self, size, kind, zero=False, name=''):
        self.size = size
        self.cells = {}     # offset -> (nbytes, value)
        self.zero = zero
        self.kind = kind    # stack heap global
        self.freed = False
        self.name = name

    def clone(self):
        o = MemObj(self.size, self.kind, self.zero, self.name)
        o.cells = dict(self.cells)
        o.freed = self.freed
        return o


class Frame:
    __slots__ = ('fn', 'regs', 'block', 'idx', 'prev', 'ret_to', 'allocas', 'call_ins')

    def __init__(self, fn):
        self.fn = fn
        self.regs = {}
        self.block = None
        self.idx = 0
        self.prev = None
        self.call_ins = None
        self.allocas = []

    def clone(self):
        f = Frame(self.fn)
        f.regs = dict(self.regs)
        f.block = self.block
        f.idx = self.idx
        f.prev = self.prev
        f.call_ins = self.call_ins
        f.allocas = list(self.allocas)
        return f


class State:
    def __init__(self):
        self.pc = True
        self.frames = []
        self.mem = {}
        self.owned = set()   # object ids whose MemObj this state may mutate in place
        self.exc = None      # pending exception (obj ptr, selector) or None
        self.dead = False

    def fork(self):
        s = State()
        s.pc = self.pc
        s.frames = [f.clone() for f in self.frames]
        s.mem = dict(self.mem)
        s.owned = set()
        self.owned = set()
        s.exc = self.exc
        return s

    def wobj(self, oid):
        o = self.mem[oid]
        if oid not in self.owned:
            o = o.clone()
            self.mem[oid] = o
            self.owned.add(oid)
        return o


class Obligation:
    def __init__(self, kind, ident, pc, cond, where):
        self.kind = kind      # assert | ub | wrap | witness | exact
        self.ident = ident
        self.pc = pc
        self.cond = cond
        self.where = where
        self.verdict = None
        self.model = None
        self.seconds = 0.0


# ------------------------------------------------------------------ weak topological order
def wto_positions(fn):
    blocks = fn.blocks
    names = [b.name for b in blocks]
    succ = {b.name: [s for s in successors(b.instrs[-1])] for b in blocks}
    # Bourdoncle's algorithm
    dfn = {n: 0 for n in names}
    num = [0]
    stack = []
    order = []

    def component(v):
        part = []
        for s in succ[v]:
            if dfn[s] == 0:
                visit(s, part)
        return [v] + part

    def visit(v, part):
        stack.append(v)
        num[0] += 1
        dfn[v] = num[0]
        head = dfn[v]
        loop = False
        for s in succ[v]:
            if dfn[s] == 0:
                m = visit(s, part)
            else:
                m = dfn[s]
            if m <= head:
                head = m
                loop = True
        if head == dfn[v]:
            dfn[v] = 10 ** 9
            e = stack.pop()
            if loop:
                while e != v:
                    dfn[e] = 0
                    e = stack.pop()
                part[0:0] = component(v)
            else:
                part.insert(0, v)
        return head

    visit(names[0], order)
    pos = {n: i for i, n in enumerate(order)}
    for n in names:
        if n not in pos:
            pos[n] = len(pos)
    return pos


# ------------------------------------------------------------------ engine
class Engine:
    def __init__(self, mod, opts=None):
        self.mod = mod
        self.opts = opts or {}
        self.nobj = 0
        self.globals = {}      # global name -> object id
        self.global_objs = {}  # oid -> MemObj (initial image, shared by all states)
        self.obls = []
        self.inputs = []       # (type, z3 var or concrete) in creation order
        self.nfresh = 0
        self.steps = 0
        self.max_steps = self.opts.get('max_steps', 2000000)
        self.wto = {}
        self.concrete_inputs = self.opts.get('concrete_inputs')  # callable(kind, lo, hi) or None
        self.witness = []
        self.solver = z3.Solver()
        self.solver.set('timeout', self.opts.get('branch_timeout_ms', 1500))
        self.uf = {}
        self.axioms = []
        self.overrides = self.opts.get('overrides', {})
        self.stats = {'forks': 0, 'merges': 0, 'feas_queries': 0, 'instrs': 0}
        self.fp_exact_check = self.opts.get('fp_exact', False)
        self.encoded = set()
        self.splits = []
        self.abs = {}
        self.iabs = {}
        self.abs_keep = []
        self.exact_ops = 0
        self.inexact = []

    # ---------------------------------------------------------- helpers
    def fresh(self, kind, tag):
        self.nfresh += 1
        name = '%s_%d' % (tag, self.nfresh)
        if kind == 'int':
            return z3.Int(name)
        if kind == 'real':
            return z3.Real(name)
        if kind == 'bool':
            return z3.Bool(name)
        raise Unsupported('fresh ' + kind)

    def new_obj(self, st, size, kind, zero=False, name=''):
        self.nobj += 1
        oid = self.nobj
        st.mem[oid] = MemObj(size, kind, zero, name)
        st.owned.add(oid)
        return oid

    def oblige(self, st, kind, ident, cond, where):
        if cond is True:
            return
        if st.pc is False:
            return
        self.obls.append(Obligation(kind, ident, st.pc, cond, where))
        # opt-in (registry symex={'assume_no_ub': True}): executions that went through undefined behaviour are
        # reported by the 'ub' obligation above and excluded from the later obligations of the same path
        # (the Int encoding and the machine disagree past a signed overflow: such models would not replay)
        if kind == 'ub' and self.opts.get('assume_no_ub') and isinstance(cond, z3.ExprRef):
            st.pc = p_and(st.pc, cond)

    def feasible(self, pc):
        if pc is True:
            return True
        if pc is False:
            return False
        self.stats['feas_queries'] += 1
        self.solver.push()
        self.solver.add(pc)
        for a in self.axioms:
            self.solver.add(a)
        r = self.solver.check()
        self.solver.pop()
        if r == z3.unknown:
            return True
        return r == z3.sat

    def unique_value(self, st, v):
        """the concrete integer v must have under the path condition of st, or None (two solver queries;
        used only where the engine needs a concrete number, e.g. an allocation size)."""
        if not isinstance(v, z3.ExprRef) or not v.is_int() or st.pc is False:
            return None
        self.stats['feas_queries'] += 2
        s = self.solver
        s.push()
        try:
            if st.pc is not True:
                s.add(st.pc)
            if s.check() != z3.sat:
                return None
            c = s.model().eval(v, model_completion=True)
            if not z3.is_int_value(c):
                return None
            s.add(v != c)
            if s.check() != z3.unsat:
                return None
            return c.as_long()
        finally:
            s.pop()

    def feasible_values(self, st, v, limit):
        """all concrete integers v can take under the path condition of st (complete enumeration), or None when
        there are more than `limit` of them or the solver does not decide."""
        if not isinstance(v, z3.ExprRef) or not v.is_int() or st.pc is False:
            return None
        s = self.solver
        s.push()
        try:
            if st.pc is not True:
                s.add(st.pc)
            for a in self.axioms:
                s.add(a)
            out = []
            while True:
                self.stats['feas_queries'] += 1
                r = s.check()
                if r == z3.unsat:
                    return out
                if r != z3.sat or len(out) >= limit:
                    return None
                c = s.model().eval(v, model_completion=True)
                if not z3.is_int_value(c):
                    return None
                out.append(c.as_long())
                s.add(v != c)
        finally:
            s.pop()

    def simp(self, v):
        if isinstance(v, z3.ExprRef):
            v = z3.simplify(v)
            if z3.is_int_value(v):
                return v.as_long()
            if z3.is_rational_value(v):
                return Fraction(v.numerator_as_long(), v.denominator_as_long())
            if z3.is_true(v):
                return True
            if z3.is_false(v):
                return False
        return v

    # ---------------------------------------------------------- types
    def size(self, t):
        return self.mod.sizeof(t)

    def zero_of(self, t):
        t = self.mod.resolve(t)
        if t.kind == 'int':
            return False if t.bits == 1 else 0
        if t.kind == 'float':
            return Fraction(0)
        if t.kind == 'ptr':
            return NULL
        if t.kind == 'struct':
            return [self.zero_of(f) for f in t.fields]
        if t.kind == 'arr':
            return [self.zero_of(t.elem) for _ in range(t.n)]
        raise Unsupported('zero of ' + t.s())

    # ---------------------------------------------------------- constants
    def const(self, st, v, ty=None):
        ty = ty or v.ty
        k = v.k
        if k == 'int':
            t = self.mod.resolve(ty)
            if t.bits == 1:
                return bool(v.v & 1)
            x = v.v & ((1 << t.bits) - 1)
            if x >= 1 << (t.bits - 1):
                x -= 1 << t.bits
            return x
        if k == 'fp':
            kind, bits = v.v
            if kind == 'double':
                d = struct.unpack('<d', struct.pack('<Q', bits))[0]
            elif kind == 'float':
                d = struct.unpack('<f', struct.pack('<I', bits))[0]
            else:
                raise Unsupported('fp kind ' + kind)
            if d != d or d in (float('inf'), float('-inf')):
                return ('fpspecial', 'nan' if d != d else ('inf' if d > 0 else '-inf'))
            return Fraction(d)
        if k == 'null':
            return NULL
        if k == 'undef':
            return self.undef_of(ty)
        if k == 'zero':
            return self.zero_of(ty)
        if k == 'global':
            return self.global_ptr(st, v.v)
        if k == 'cexpr':
            return self.cexpr(st, v)
        if k == 'agg':
            return [self.const(st, o, o.ty) for o in v.ops]
        if k == 'cstr':
            return [b if b < 128 else b - 256 for b in v.v]
        raise Unsupported('const ' + k)

    def undef_of(self, ty):
        t = self.mod.resolve(ty)
        if t.kind in ('struct',):
            return [self.undef_of(f) for f in t.fields]
        if t.kind == 'arr':
            return [self.undef_of(t.elem) for _ in range(t.n)]
        return UNDEF

    def global_ptr(self, st, name):
        name0 = name
        seen = 0
        while name in self.mod.aliases and seen < 10:
            name = self.mod.aliases[name]
            seen += 1
        if name in self.mod.funcs:
            return Ptr(('fn', name), 0)
        oid = self.globals.get(name)
        if oid is None:
            g = self.mod.globals.get(name)
            if g is None:
                raise Unsupported('unknown global ' + name0)
            self.nobj += 1
            oid = self.nobj
            self.globals[name] = oid
            try:
                sz = self.size(g.ty)
            except IRError:
                sz = 256
            o = MemObj(sz, 'global', zero=True, name=name)
            self.global_objs[oid] = o
            if g.init is not None:
                tmp = State()
                tmp.mem = {oid: o}
                tmp.owned = {oid}
                val = self.const(tmp, g.init, g.ty)
                self.store_val(tmp, o, 0, g.ty, val)
        if oid not in st.mem:
            st.mem[oid] = self.global_objs[oid]
        return Ptr(oid, 0)

    def cexpr(self, st, v):
        op = v.v
        if op == 'getelementptr':
            base = self.const(st, v.ops[0])
            return self.gep(st, base, v.extra['sty'], [self.const(st, o) for o in v.ops[1:]], v.ops[1:])
        if op in ('bitcast', 'addrspacecast'):
            return self.const(st, v.ops[0])
        if op in ('ptrtoint', 'inttoptr'):
            return self.const(st, v.ops[0])
        raise Unsupported('constant expression ' + op)

    # ---------------------------------------------------------- memory access
    def store_val(self, st, o, off, ty, val):
        """store a (possibly aggregate) value at concrete offset."""
        t = self.mod.resolve(ty)
        if t.kind == 'struct':
            for i, f in enumerate(t.fields):
                self.store_val(st, o, off + self.mod.field_offset(t, i), f, val[i])
            return
        if t.kind == 'arr':
            es = self.size(t.elem)
            for i in range(t.n):
                self.store_val(st, o, off + i * es, t.elem, val[i])
            return
        n = self.size(t)
        # drop overlapping cells
        for c in list(o.cells):
            cn = o.cells[c][0]
            if c < off + n and off < c + cn and c != off:
                del o.cells[c]
        o.cells[off] = (n, val)

    def load_cell(self, st, o, off, ty, where):
        t = self.mod.resolve(ty)
        if t.kind == 'struct':
            return [self.load_cell(st, o, off + self.mod.field_offset(t, i), f, where) for i, f in enumerate(t.fields)]
        if t.kind == 'arr':
            es = self.size(t.elem)
            return [self.load_cell(st, o, off + i * es, t.elem, where) for i in range(t.n)]
        n = self.size(t)
        c = o.cells.get(off)
        if c is not None and c[0] == n:
            return self.retype(c[1], t)
        if c is None:
            # sub-cell read of a byte array (strings) or uninitialised
            for co, (cn, cv) in o.cells.items():
                if co <= off < co + cn:
                    raise Unsupported('partial read of a %d-byte cell at +%d of %s (%s)' % (cn, co, o.name, where))
            if o.zero:
                return self.zero_of(t)
            return UNDEF
        if t.kind == 'int' and c[0] * 2 == n:
            c2 = o.cells.get(off + c[0])
            if c2 is not None and c2[0] == c[0]:
                lo, hi = c[1], c2[1]
                hb = c[0] * 8
                if isinstance(lo, int) and isinstance(hi, int) and not isinstance(lo, bool) and not isinstance(hi, bool):
                    v = (lo & ((1 << hb) - 1)) | ((hi & ((1 << hb) - 1)) << hb)
                    if v >= 1 << (n * 8 - 1):
                        v -= 1 << (n * 8)
                    return v
                if not isinstance(lo, (Ptr, PIte, Fraction)) and not isinstance(hi, (Ptr, PIte, Fraction)) \
                        and lo is not UNDEF and hi is not UNDEF:
                    return self.simp(zint(self.to_unsigned(lo, hb)) + zint(hi) * (1 << hb))
        raise Unsupported('load of %d bytes from a %d-byte cell (%s)' % (n, c[0], where))

    def retype(self, v, t):
        if v is UNDEF:
            return v
        if t.kind == 'float':
            if isinstance(v, int) and not isinstance(v, bool):
                if v == 0:
                    return Fraction(0)
                raise Unsupported('integer bits read as double')
            if isinstance(v, z3.ExprRef) and v.is_int():
                raise Unsupported('integer bits read as double')
            return v
        if t.kind == 'int':
            if isinstance(v, Fraction):
                if v == 0:
                    return 0
                raise Unsupported('double bits read as integer')
            if isinstance(v, z3.ExprRef) and not z3.is_bool(v) and v.is_real():
                raise Unsupported('double bits read as integer')
            if t.bits == 1 and isinstance(v, int) and not isinstance(v, bool):
                return bool(v & 1)
            if t.bits > 1 and isinstance(v, bool):
                return int(v)
            if t.bits > 1 and isinstance(v, z3.ExprRef) and z3.is_bool(v):
                return z3.If(v, 1, 0)
            return v
        if t.kind == 'ptr' and isinstance(v, int) and not isinstance(v, bool) and v == 0:
            return NULL   # zero bytes (memset / integer 0 store) read back as a pointer: the null pointer
        return v

    def access(self, st, p, ty, where, store=None):
        """load (store is None) or store through pointer value p."""
        if isinstance(p, PIte):
            if store is None:
                a = self.access_guarded(st, p.a, ty, where, p_and(st.pc, p.c))
                b = self.access_guarded(st, p.b, ty, where, p_and(st.pc, p_not(p.c)))
                return ite(p.c, a, b)
            # conditional store: old value merged
            for br, g in ((p.a, p.c), (p.b, p_not(p.c))):
                if isinstance(br, Ptr) and br.obj is None:
                    # null alternative of the merged pointer: undefined if its guard can hold here (obligation under
                    # the guarded path condition); the execution continues on the other alternative only
                    save = st.pc
                    st.pc = self.simp(p_and(save, g))
                    self.oblige(st, 'ub', 'null pointer dereference', False, where)
                    st.pc = self.simp(p_and(save, p_not(g)))
                    continue
                old = self.access_guarded(st, br, ty, where, p_and(st.pc, g))
                # the store through this alternative only happens under its guard: its obligations (bounds, use
                # after free, null) are raised under the guarded path condition
                save = st.pc
                st.pc = self.simp(p_and(save, g)) if not isinstance(p_and(save, g), bool) else p_and(save, g)
                if st.pc is not False:
                    self.access(st, br, ty, where, store=ite(g, store, old))
                st.pc = save
            return None
        if not isinstance(p, Ptr):
            raise Unsupported('dereference of non-pointer %r (%s)' % (p, where))
        if p.obj is None:
            self.oblige(st, 'ub', 'null pointer dereference', False, where)
            st.pc = False
            return UNDEF
        if isinstance(p.obj, tuple):
            raise Unsupported('dereference of function pointer')
        o = st.mem.get(p.obj)
        if o is None:
            raise Unsupported('dangling object %r (%s)' % (p.obj, where))
        t = self.mod.resolve(ty)
        n = self.size(t)
        off = self.simp(p.off)
        if isinstance(off, int):
            if off < 0 or off + n > o.size:
                self.oblige(st, 'ub', 'out-of-bounds %s of %d bytes at offset %d of %s (size %d)' % (
                    'store' if store is not None else 'load', n, off, o.name or o.kind, o.size), False, where)
                st.pc = False
                return UNDEF
            if o.freed is not False:
                # freed is False / True / the condition (z3 Bool) under which a merged state has freed the object
                self.oblige(st, 'ub', 'use after free', False if o.freed is True else self.simp(z3.Not(o.freed)), where)
            if store is None:
                return self.load_cell(st, o, off, ty, where)
            o = st.wobj(p.obj)
            self.store_val(st, o, off, ty, store)
            return None
        # symbolic offset: candidates are the n-aligned slots of the object
        if t.kind in ('struct', 'arr'):
            raise Unsupported('aggregate access at symbolic offset')
        cands = list(range(0, o.size - n + 1, n))
        if len(cands) > 256:
            # large object (e.g. a table of structs indexed by a merged loop result): keep only the slots the path
            # condition allows.  Any feasible offset that is not a valid slot violates the in-bounds obligation below.
            feas = self.feasible_values(st, off, 256)
            if feas is None:
                raise Unsupported('symbolic offset into a %d-byte object' % o.size)
            valid = set(cands)
            cands = sorted(c for c in feas if c in valid)
        inb = z3.Or([off == c for c in cands]) if cands else False
        self.oblige(st, 'ub', 'out-of-bounds or misaligned %s at symbolic offset of %s (size %d)' % (
            'store' if store is not None else 'load', o.name or o.kind, o.size), inb, where)
        st.pc = p_and(st.pc, inb)
        if store is None:
            res = None
            for c in reversed(cands):
                try:
                    v = self.load_cell(st, o, c, ty, where)
                except Unsupported:
                    # a slot that cannot be read with this type (e.g. inside a wider cell of a struct) only matters
                    # if the offset can take that value
                    if self.feasible(p_and(st.pc, off == c)):
                        raise
                    continue
                res = v if res is None else ite(off == c, v, res)
            if res is None:
                raise Unsupported('no readable slot at symbolic offset (%s)' % where)
            return res
        o = st.wobj(p.obj)
        for c in cands:
            try:
                old = self.load_cell(st, o, c, ty, where)
            except Unsupported:
                if self.feasible(p_and(st.pc, off == c)):
                    raise
                continue
            self.store_val(st, o, c, ty, ite(off == c, store, old))
        return None

    def access_guarded(self, st, p, ty, where, pc):
        save = st.pc
        st.pc = pc
        try:
            return self.access(st, p, ty, where)
        finally:
            st.pc = save

    # ---------------------------------------------------------- address arithmetic
    def ptr_add(self, p, delta):
        if isinstance(p, PIte):
            return PIte(p.c, self.ptr_add(p.a, delta), self.ptr_add(p.b, delta))
        if not isinstance(p, Ptr):
            raise Unsupported('pointer arithmetic on %r' % (p,))
        if isinstance(delta, int) and isinstance(p.off, int):
            return Ptr(p.obj, p.off + delta)
        return Ptr(p.obj, self.simp(zint(p.off) + zint(delta)))

    def gep(self, st, base, sty, idxvals, idxops):
        t = sty
        delta = 0
        first = True
        for iv, io in zip(idxvals, idxops):
            if first:
                es = self.size(t)
                first = False
            else:
                t = self.mod.resolve(t)
                if t.kind == 'struct':
                    delta = delta + self.mod.field_offset(t, io.v)
                    t = t.fields[io.v]
                    continue
                t = t.elem
                es = self.size(t)
            if isinstance(iv, int):
                delta = delta + iv * es
            else:
                delta = zint(delta) + iv * es
        return self.ptr_add(base, delta)

    # ---------------------------------------------------------- integer helpers
    def rng(self, bits):
        return -(1 << (bits - 1)), (1 << (bits - 1)) - 1

    def fits(self, v, bits):
        lo, hi = self.rng(bits)
        if isinstance(v, int):
            return lo <= v <= hi
        return z3.And(v >= lo, v <= hi)

    def to_unsigned(self, v, bits):
        if isinstance(v, bool):
            return int(v)
        if isinstance(v, int):
            return v & ((1 << bits) - 1)
        return z3.If(v < 0, v + (1 << bits), v)

    def wrap(self, st, v, bits, where, what):
        """bring v back into the signed range of `bits` (obligation: it already fits)."""
        if isinstance(v, int):
            v &= (1 << bits) - 1
            if v >= 1 << (bits - 1):
                v -= 1 << bits
            return v
        if not self.fits_by_bound(v, bits):
            self.oblige(st, 'wrap', what, self.fits(v, bits), where)
        return v

    def val(self, st, fr, op):
        if op.k == 'local':
            try:
                return fr.regs[op.v]
            except KeyError:
                raise Unsupported('use of undefined %%%s in %s' % (op.v, fr.fn.name))
        return self.const(st, op)

    def as_int(self, v):
        if isinstance(v, bool):
            return int(v)
        if isinstance(v, z3.ExprRef) and z3.is_bool(v):
            return z3.If(v, 1, 0)
        return v

    # ---------------------------------------------------------- instruction semantics
    def binop(self, st, ins, a, b, where):
        op = ins.op
        t = self.mod.resolve(ins.ty)
        if t.kind == 'float':
            if isinstance(a, tuple) or isinstance(b, tuple):
                raise Unsupported('arithmetic on inf/nan constant')
            if a is UNDEF or b is UNDEF:
                return UNDEF
            if isinstance(a, Quot) or isinstance(b, Quot) or (op == 'fdiv' and self.opts.get('lazy_div', True)
                                                               and not is_conc(b)):
                return self.quot_op(st, op, a, b, where)
            if op == 'fadd':
                r = a + b if is_conc(a) and is_conc(b) else zreal(a) + zreal(b)
            elif op == 'fsub':
                r = a - b if is_conc(a) and is_conc(b) else zreal(a) - zreal(b)
            elif op == 'fmul':
                r = a * b if is_conc(a) and is_conc(b) else zreal(a) * zreal(b)
            elif op == 'fdiv':
                if is_conc(b):
                    if b == 0:
                        self.oblige(st, 'fpspecial', 'floating division by zero', False, where)
                        st.pc = False
                        return UNDEF
                    r = Fraction(a) / b if is_conc(a) else zreal(a) / zreal(b)
                else:
                    self.oblige(st, 'fpspecial', 'floating division by zero', zreal(b) != 0, where)
                    st.pc = p_and(st.pc, zreal(b) != 0)
                    r = zreal(a) / zreal(b)
            else:
                raise Unsupported('fp op ' + op)
            if self.fp_exact_check:
                self.track_exact(op, a, b, r, where)
            return r
        bits = t.bits
        if bits == 1:
            a, b = zbool(a) if not isinstance(a, bool) else a, zbool(b) if not isinstance(b, bool) else b
            if op == 'and':
                return p_and(a, b)
            if op == 'or':
                return p_or(a, b)
            if op in ('xor', 'add', 'sub'):
                if isinstance(a, bool) and isinstance(b, bool):
                    return a != b
                return z3.Xor(zbool(a), zbool(b))
            raise Unsupported('i1 ' + op)
        if a is UNDEF or b is UNDEF:
            return UNDEF
        fl = ins.a.get('flags', ())
        # pointer-valued integers (ptrtoint results)
        if isinstance(a, (Ptr, PIte)) or isinstance(b, (Ptr, PIte)):
            if op == 'sub' and (isinstance(a, PIte) or isinstance(b, PIte)) and isinstance(a, (Ptr, PIte)) and isinstance(b, (Ptr, PIte)):
                # merged pointers: distribute over the alternatives whose guards are jointly feasible
                def alts(p, g):
                    if isinstance(p, PIte):
                        return alts(p.a, p_and(g, p.c)) + alts(p.b, p_and(g, p_not(p.c)))
                    return [(g, p)]
                res = None
                for ga, pa in alts(a, True):
                    for gb, pb in alts(b, True):
                        g = self.simp(p_and(ga, gb)) if not isinstance(p_and(ga, gb), bool) else p_and(ga, gb)
                        if g is False:
                            continue
                        if pa.obj != pb.obj and not isinstance(pa.obj, tuple) and not isinstance(pb.obj, tuple):
                            # two different objects, or an object and null: skip the pair when its guards cannot hold together
                            if not self.feasible(p_and(st.pc, g)):
                                continue
                        v = self.binop(st, ins, pa, pb, where)
                        res = v if res is None else ite(g, v, res)
                if res is None:
                    return UNDEF
                return res
            if op == 'sub' and isinstance(a, Ptr) and isinstance(b, Ptr) and a.obj == b.obj:
                return self.simp(zint(a.off) - zint(b.off)) if not (isinstance(a.off, int) and isinstance(b.off, int)) else a.off - b.off
            if op == 'add' and isinstance(a, (Ptr, PIte)) and not isinstance(b, (Ptr, PIte)):
                return self.ptr_add(a, b)
            if op == 'add' and isinstance(b, (Ptr, PIte)) and not isinstance(a, (Ptr, PIte)):
                return self.ptr_add(b, a)
            if op == 'sub' and isinstance(a, (Ptr, PIte)) and not isinstance(b, (Ptr, PIte)):
                return self.ptr_add(a, -b if isinstance(b, int) else -b)
            if (op == 'sub' and isinstance(a, Ptr) and isinstance(b, Ptr) and isinstance(a.obj, int) and isinstance(b.obj, int)
                    and a.obj != b.obj):
                # difference of addresses of two distinct objects: undefined in C++ ([expr.add]) and not a
                # value of the program's data; reported (replayed under the sanitizers), path ends
                self.oblige(st, 'ub', 'difference of pointers into two different objects (%s, %s)' % (
                    st.mem[a.obj].name if a.obj in st.mem else a.obj, st.mem[b.obj].name if b.obj in st.mem else b.obj), False, where)
                st.pc = False
                return UNDEF
            if (op == 'and' and isinstance(a, Ptr) and isinstance(a.obj, tuple) and a.obj[0] == 'fn' and a.off == 0
                    and isinstance(b, int) and b == 1):
                # Itanium member-function-pointer dispatch: `ptr & 1` tests the "virtual" tag; the address of a
                # (non-virtual) function is even, which is what the ABI's encoding relies on
                return 0
            raise Unsupported('integer op %s on pointer values' % op)
        conc = isinstance(a, int) and isinstance(b, int)
        if op in ('add', 'sub', 'mul'):
            if conc:
                r = a + b if op == 'add' else a - b if op == 'sub' else a * b
                if ('nsw' in fl) and not self.fits(r, bits):
                    self.oblige(st, 'ub', 'signed overflow in %s i%d' % (op, bits), False, where)
                return self.wrap(st, r, bits, where, '')
            za, zb = zint(a), zint(b)
            r = za + zb if op == 'add' else za - zb if op == 'sub' else za * zb
            r = self.simp(r)
            if isinstance(r, int):
                return self.wrap(st, r, bits, where, '')
            if self.fits_by_bound(r, bits):
                return r
            if 'nsw' in fl:
                self.oblige(st, 'ub', 'signed overflow in %s i%d' % (op, bits), self.fits(r, bits), where)
            else:
                self.oblige(st, 'wrap', 'wrapping %s i%d is outside the Int encoding' % (op, bits), self.fits(r, bits), where)
            return r
        if op in ('sdiv', 'srem', 'udiv', 'urem'):
            if op[0] == 'u':
                a, b = self.to_unsigned(a, bits), self.to_unsigned(b, bits)
            if isinstance(b, int) and b == 0:
                self.oblige(st, 'ub', 'integer division by zero', False, where)
                st.pc = False
                return UNDEF
            if not isinstance(b, int):
                self.oblige(st, 'ub', 'integer division by zero', zint(b) != 0, where)
                st.pc = p_and(st.pc, zint(b) != 0)
            if isinstance(a, int) and isinstance(b, int):
                q = abs(a) // abs(b)
                if (a < 0) != (b < 0):
                    q = -q
                r = a - q * b
                res = q if op in ('sdiv', 'udiv') else r
                if op == 'sdiv' and not self.fits(res, bits):
                    self.oblige(st, 'ub', 'signed overflow in sdiv', False, where)
                return self.wrap(st, res, bits, where, '')
            za, zb = zint(a), zint(b)
            # C truncating division from z3's floor/euclidean division
            q = z3.If(za >= 0, z3.If(zb > 0, za / zb, -(za / (-zb))), z3.If(zb > 0, -((-za) / zb), (-za) / (-zb)))
            if op in ('sdiv', 'udiv'):
                if op == 'sdiv':
                    self.oblige(st, 'ub', 'signed overflow in sdiv', self.fits(q, bits), where)
                return self.simp(q) if op == 'sdiv' else self.wrap(st, self.simp(q), bits, where, 'udiv result')
            return self.simp(za - q * zb)
        if op == 'shl':
            if isinstance(b, int):
                if b < 0 or b >= bits:
                    self.oblige(st, 'ub', 'shift amount out of range', False, where)
                    return UNDEF
                if conc:
                    return self.wrap(st, a << b, bits, where, '')
                r = zint(a) * (1 << b)
                if self.fits_by_bound(r, bits):
                    return r
                self.oblige(st, 'ub' if 'nsw' in fl else 'wrap', 'overflow in shl i%d' % bits, self.fits(r, bits), where)
                return r
            raise Unsupported('shl by symbolic amount')
        if op in ('lshr', 'ashr'):
            if isinstance(b, int):
                if b < 0 or b >= bits:
                    self.oblige(st, 'ub', 'shift amount out of range', False, where)
                    return UNDEF
                if op == 'lshr':
                    a = self.to_unsigned(a, bits)
                if isinstance(a, int):
                    return self.wrap(st, a >> b, bits, where, '')
                return self.simp(zint(a) / (1 << b))   # z3 Int division floors for positive divisor
            raise Unsupported(op + ' by symbolic amount')
        if op in ('and', 'or', 'xor'):
            if conc:
                return self.wrap(st, {'and': a & b, 'or': a | b, 'xor': a ^ b}[op], bits, where, '')
            # masks with constants
            c, x = (a, b) if isinstance(a, int) else (b, a) if isinstance(b, int) else (None, None)
            if c is not None:
                if op == 'and' and c >= 0 and (c + 1) & c == 0:      # low-bit mask
                    return self.simp(zint(self.to_unsigned(x, bits)) % (c + 1))
                if op == 'and' and c == -1:
                    return x
                if op == 'and' and c < 0 and ((-c) & (-c - 1)) == 0:  # align down to 2^k
                    m = -c
                    return self.simp(zint(x) - zint(x) % m)
                if op == 'xor' and c == -1:
                    return self.simp(-zint(x) - 1)
                if op == 'or' and c == 0:
                    return x
                if op == 'xor' and c == 0:
                    return x
                if op == 'and' and c == 0:
                    return 0
                if op == 'or' and c > 0 and isinstance(x, z3.ExprRef) and self.mult_of(x, 1 << c.bit_length()):
                    # `2*i | 1`: the low bits of x are zero, so or == add (clang's rewrite of 2*i+1)
                    return self.simp(zint(x) + c)
            raise Unsupported('bitwise %s on symbolic integers' % op)
        raise Unsupported('binop ' + op)

    def mult_of(self, x, m, depth=0):
        """syntactic proof that the Int term x is a multiple of m (a power of two)."""
        if isinstance(x, int):
            return x % m == 0
        if not isinstance(x, z3.ExprRef) or not x.is_int() or depth > 12:
            return False
        if z3.is_int_value(x):
            return x.as_long() % m == 0
        if not z3.is_app(x):
            return False
        k = x.decl().kind()
        if k == z3.Z3_OP_MUL:
            return any(self.mult_of(x.arg(i), m, depth + 1) for i in range(x.num_args()))
        if k in (z3.Z3_OP_ADD, z3.Z3_OP_SUB):
            return all(self.mult_of(x.arg(i), m, depth + 1) for i in range(x.num_args()))
        if k == z3.Z3_OP_ITE:
            return self.mult_of(x.arg(1), m, depth + 1) and self.mult_of(x.arg(2), m, depth + 1)
        return False

    # ---- exactness bridge: integrality + magnitude tracking of real-valued terms (sound abstract
    # interpretation; a +,-,* whose operands are integers and whose result is below 2^53 is exact in IEEE)
    def absinfo(self, v):
        if isinstance(v, (int, Fraction)) and not isinstance(v, bool):
            f = Fraction(v)
            return (f.denominator == 1, abs(f))
        if isinstance(v, z3.ExprRef):
            i = self.abs.get(v.get_id())
            if i is not None:
                return i
            if z3.is_app(v) and v.decl().kind() == z3.Z3_OP_ITE:
                a, b = self.absinfo(v.arg(1)), self.absinfo(v.arg(2))
                if a and b:
                    return (a[0] and b[0], max(a[1], b[1]))
        return None

    def ibound(self, v, depth=0):
        """cheap syntactic bound on |v| of an Int-valued term (None = unknown); used only to skip
        overflow obligations that interval arithmetic already proves (sound: never adds a claim)."""
        if isinstance(v, bool):
            return 1
        if isinstance(v, int):
            return abs(v)
        if not isinstance(v, z3.ExprRef) or depth > 200:
            return None
        if z3.is_bool(v):
            return 1
        if not v.is_int():
            return None
        i = self.iabs.get(v.get_id())
        if i is not None:
            return i if i >= 0 else None
        r = None
        if z3.is_int_value(v):
            r = abs(v.as_long())
        elif z3.is_app(v):
            k = v.decl().kind()
            if k == z3.Z3_OP_ITE:
                a, b = self.ibound(v.arg(1), depth + 1), self.ibound(v.arg(2), depth + 1)
                if a is not None and b is not None:
                    r = max(a, b)
            elif k in (z3.Z3_OP_ADD, z3.Z3_OP_SUB, z3.Z3_OP_MUL, z3.Z3_OP_UMINUS):
                bs = [self.ibound(v.arg(j), depth + 1) for j in range(v.num_args())]
                if all(x is not None for x in bs):
                    if k == z3.Z3_OP_MUL:
                        r = 1
                        for x in bs:
                            r *= x
                    else:
                        r = sum(bs)
        self.iabs[v.get_id()] = r if r is not None else -1
        self.abs_keep.append(v)
        return r

    def fits_by_bound(self, v, bits):
        b = self.ibound(v)
        return b is not None and b < (1 << (bits - 1))

    def track_exact(self, op, a, b, r, where):
        ia, ib = self.absinfo(a), self.absinfo(b)
        ok = False
        if ia and ib and ia[0] and ib[0]:
            if op in ('fadd', 'fsub'):
                bound = ia[1] + ib[1]
            else:
                bound = ia[1] * ib[1]
            if isinstance(r, z3.ExprRef):
                self.abs[r.get_id()] = (True, bound)
                self.abs_keep.append(r)
            ok = bound <= 2 ** 53
        self.exact_ops += 1
        if not ok:
            self.inexact.append('%s at %s' % (op, where))

    def rmul(self, a, b):
        if is_conc(a) and is_conc(b):
            return a * b
        if is_conc(a) and a == 1:
            return b
        if is_conc(b) and b == 1:
            return a
        return zreal(a) * zreal(b)

    def radd(self, a, b, sub=False):
        if is_conc(a) and is_conc(b):
            return a - b if sub else a + b
        return zreal(a) - zreal(b) if sub else zreal(a) + zreal(b)

    def quot_op(self, st, op, a, b, where):
        qa = a if isinstance(a, Quot) else Quot(a, Fraction(1))
        qb = b if isinstance(b, Quot) else Quot(b, Fraction(1))
        if op in ('fadd', 'fsub'):
            if same(qa.d, qb.d):
                return Quot(self.radd(qa.n, qb.n, op == 'fsub'), qa.d)
            return Quot(self.radd(self.rmul(qa.n, qb.d), self.rmul(qb.n, qa.d), op == 'fsub'), self.rmul(qa.d, qb.d))
        if op == 'fmul':
            return Quot(self.rmul(qa.n, qb.n), self.rmul(qa.d, qb.d))
        if op == 'fdiv':
            den = self.rmul(qa.d, qb.n)
            if is_conc(den):
                if den == 0:
                    self.oblige(st, 'fpspecial', 'floating division by zero', False, where)
                    st.pc = False
                    return UNDEF
            else:
                nz = zreal(qb.n) != 0
                self.oblige(st, 'fpspecial', 'floating division by zero', nz, where)
                st.pc = p_and(st.pc, nz)
            return Quot(self.rmul(qa.n, qb.d), den)
        raise Unsupported('fp op %s on lazily divided value' % op)

    def quot_cmp(self, p, a, b):
        qa = a if isinstance(a, Quot) else Quot(a, Fraction(1))
        qb = b if isinstance(b, Quot) else Quot(b, Fraction(1))
        if same(qa.d, qb.d):
            N, D = self.radd(qa.n, qb.n, True), qa.d
        else:
            N = self.radd(self.rmul(qa.n, qb.d), self.rmul(qb.n, qa.d), True)
            D = self.rmul(qa.d, qb.d)
        N, D = zreal(N), zreal(D)
        if p == 'eq':
            return N == 0
        if p == 'ne':
            return N != 0
        pos, neg = D > 0, D < 0
        if p == 'gt':
            return z3.Or(z3.And(pos, N > 0), z3.And(neg, N < 0))
        if p == 'ge':
            return z3.Or(z3.And(pos, N >= 0), z3.And(neg, N <= 0))
        if p == 'lt':
            return z3.Or(z3.And(pos, N < 0), z3.And(neg, N > 0))
        if p == 'le':
            return z3.Or(z3.And(pos, N <= 0), z3.And(neg, N >= 0))
        raise Unsupported('quot cmp ' + p)

    def icmp(self, st, pred, a, b, ty):
        t = self.mod.resolve(ty)
        if t.kind == 'ptr' or isinstance(a, (Ptr, PIte)) or isinstance(b, (Ptr, PIte)):
            return self.pcmp(pred, a, b)
        if a is UNDEF or b is UNDEF:
            return self.fresh('bool', 'undefcmp')
        if t.kind == 'int' and t.bits == 1:
            a, b = self.as_int(a), self.as_int(b)
            if pred in ('slt', 'sgt', 'sle', 'sge'):
                a, b = (-a if isinstance(a, int) else -a), (-b if isinstance(b, int) else -b)
        bits = t.bits if t.kind == 'int' else 64
        if pred[0] == 'u':
            a, b = self.to_unsigned(a, bits), self.to_unsigned(b, bits)
        if isinstance(a, int) and isinstance(b, int):
            return {'eq': a == b, 'ne': a != b, 'gt': a > b, 'ge': a >= b, 'lt': a < b, 'le': a <= b}[pred[-2:] if pred not in ('eq', 'ne') else pred]
        za, zb = zint(a), zint(b)
        key = pred if pred in ('eq', 'ne') else pred[-2:]
        r = {'eq': za == zb, 'ne': za != zb, 'gt': za > zb, 'ge': za >= zb, 'lt': za < zb, 'le': za <= zb}[key]
        return self.simp(r)

    def pcmp(self, pred, a, b):
        def is_null(x):
            return (isinstance(x, Ptr) and x.obj is None) or (isinstance(x, int) and x == 0)
        if isinstance(a, PIte):
            return ite(a.c, self.pcmp(pred, a.a, b), self.pcmp(pred, a.b, b))
        if isinstance(b, PIte):
            return ite(b.c, self.pcmp(pred, a, b.a), self.pcmp(pred, a, b.b))
        if a is UNDEF or b is UNDEF:
            return self.fresh('bool', 'undefcmp')
        if isinstance(a, int):
            a = Ptr(None, a)
        if isinstance(b, int):
            b = Ptr(None, b)
        if not isinstance(a, Ptr) or not isinstance(b, Ptr):
            raise Unsupported('pointer compare %r %r' % (a, b))
        if a.obj != b.obj:
            if pred == 'eq':
                return False
            if pred == 'ne':
                return True
            raise Unsupported('ordering of pointers into different objects')
        x, y = a.off, b.off
        if isinstance(x, int) and isinstance(y, int):
            return {'eq': x == y, 'ne': x != y, 'ugt': x > y, 'uge': x >= y, 'ult': x < y, 'ule': x <= y,
                    'sgt': x > y, 'sge': x >= y, 'slt': x < y, 'sle': x <= y}[pred]
        zx, zy = zint(x), zint(y)
        return self.simp({'eq': zx == zy, 'ne': zx != zy, 'ugt': zx > zy, 'uge': zx >= zy, 'ult': zx < zy,
                          'ule': zx <= zy, 'sgt': zx > zy, 'sge': zx >= zy, 'slt': zx < zy, 'sle': zx <= zy}[pred])

    def fcmp(self, st, pred, a, b, where):
        if pred == 'true':
            return True
        if pred == 'false':
            return False
        if a is UNDEF or b is UNDEF:
            return self.fresh('bool', 'undefcmp')
        sa, sb = isinstance(a, tuple), isinstance(b, tuple)
        if sa or sb:
            # comparison against +-inf / nan constants, finite-real reading of the other side
            def rank(x):
                return {'-inf': -1, 'inf': 1}.get(x[1]) if isinstance(x, tuple) else 0
            if (sa and a[1] == 'nan') or (sb and b[1] == 'nan'):
                return pred in ('uno', 'ueq', 'une', 'ugt', 'uge', 'ult', 'ule')
            ra, rb = rank(a), rank(b)
            p = pred[1:]
            return {'eq': ra == rb, 'ne': ra != rb, 'gt': ra > rb, 'ge': ra >= rb, 'lt': ra < rb, 'le': ra <= rb,
                    'rd': True, 'no': False}[p]
        if pred == 'ord':
            return True
        if pred == 'uno':
            return False
        p = pred[1:]
        if is_conc(a) and is_conc(b):
            return {'eq': a == b, 'ne': a != b, 'gt': a > b, 'ge': a >= b, 'lt': a < b, 'le': a <= b}[p]
        if isinstance(a, Quot) or isinstance(b, Quot):
            return self.simp(self.quot_cmp(p, a, b))
        za, zb = zreal(a), zreal(b)
        return self.simp({'eq': za == zb, 'ne': za != zb, 'gt': za > zb, 'ge': za >= zb, 'lt': za < zb, 'le': za <= zb}[p])

    def cast(self, st, ins, a, where):
        op = ins.op
        if isinstance(a, Quot) and op in ('fptosi', 'fptoui'):
            a = zreal(a)   # materialise the lazily divided value
        fr_t = self.mod.resolve(ins.ops[0].ty)
        to = self.mod.resolve(ins.ty)
        if a is UNDEF:
            return UNDEF
        if op in ('bitcast', 'addrspacecast'):
            if fr_t.kind == to.kind or (fr_t.kind == 'ptr' and to.kind == 'ptr'):
                return a
            raise Unsupported('bitcast %s -> %s' % (fr_t.s(), to.s()))
        if op in ('ptrtoint', 'inttoptr'):
            if op == 'inttoptr' and isinstance(a, int):
                if a == 0:
                    return NULL
                raise Unsupported('inttoptr of integer')
            return a
        if op == 'sext':
            if fr_t.bits == 1:
                if isinstance(a, bool):
                    return -1 if a else 0
                return z3.If(a, -1, 0)
            return a
        if op == 'zext':
            if fr_t.bits == 1:
                return self.as_int(a)
            if isinstance(a, (Ptr, PIte)):
                return a
            return self.simp(self.to_unsigned(a, fr_t.bits)) if not isinstance(a, int) else self.to_unsigned(a, fr_t.bits)
        if op == 'trunc':
            if isinstance(a, (Ptr, PIte)):
                raise Unsupported('trunc of pointer')
            if to.bits == 1:
                if isinstance(a, int):
                    return bool(a & 1)
                return self.simp(zint(a) % 2 == 1)
            if isinstance(a, int):
                return self.wrap(st, a, to.bits, where, '')
            # value must fit either the signed or the unsigned range of the target
            lo, hi = self.rng(to.bits)
            if self.fits_by_bound(a, to.bits):
                return a
            self.oblige(st, 'wrap', 'trunc to i%d changes the value' % to.bits,
                        z3.And(a >= lo, a < (1 << to.bits)), where)
            return self.simp(z3.If(a > hi, a - (1 << to.bits), a))
        if op in ('sitofp', 'uitofp'):
            if fr_t.bits == 1:
                a = self.as_int(a)
                if op == 'sitofp':
                    a = -a
            elif op == 'uitofp':
                a = self.to_unsigned(a, fr_t.bits)
            if isinstance(a, int):
                return Fraction(a)
            return z3.ToReal(a)
        if op in ('fptosi', 'fptoui'):
            if isinstance(a, tuple):
                raise Unsupported('fptosi of inf/nan')
            if is_conc(a):
                q = int(a)  # Fraction.__int__ truncates toward zero
                if not self.fits(q, to.bits) and op == 'fptosi':
                    self.oblige(st, 'ub', 'fptosi result out of range', False, where)
                return q
            r = z3.If(a >= 0, z3.ToInt(a), -z3.ToInt(-a))
            self.oblige(st, 'ub', 'fp to int conversion out of range', self.fits(r, to.bits), where)
            return r
        if op in ('fpext', 'fptrunc'):
            if op == 'fptrunc':
                raise Unsupported('fptrunc (float precision)')
            return a
        raise Unsupported('cast ' + op)

    # ---------------------------------------------------------- calls
    def do_intrinsic(self, st, fr, ins, name, args, where):
        base = name.split('.')[1]
        args = [zreal(x) if isinstance(x, Quot) else x for x in args]
        if base in ('lifetime', 'dbg', 'assume', 'experimental', 'invariant', 'donothing', 'prefetch', 'var',
                    'annotation', 'sideeffect', 'stackrestore'):
            return None
        if base == 'stacksave':
            return NULL
        if base in ('memcpy', 'memmove'):
            d, s, n = args[0], args[1], self.simp(args[2])
            if not isinstance(n, int):
                raise Unsupported('mem copy of symbolic length')
            if n == 0:
                return None
            if not isinstance(d, Ptr) or not isinstance(s, Ptr) or not isinstance(d.off, int) or not isinstance(s.off, int):
                raise Unsupported('mem copy through symbolic pointers')
            so = st.mem[s.obj]
            if s.off < 0 or s.off + n > so.size or d.off < 0 or d.off + n > st.mem[d.obj].size:
                self.oblige(st, 'ub', 'out-of-bounds memcpy/memmove of %d bytes' % n, False, where)
                st.pc = False
                return None
            cells = [(c, v) for c, v in so.cells.items() if s.off <= c and c + v[0] <= s.off + n]
            for c, v in so.cells.items():
                if (c < s.off < c + v[0]) or (c < s.off + n < c + v[0]):
                    raise Unsupported('mem copy splits a cell')
            do = st.wobj(d.obj)
            for c in list(do.cells):
                cn = do.cells[c][0]
                if c < d.off + n and d.off < c + cn:
                    if c < d.off or c + cn > d.off + n:
                        raise Unsupported('mem copy overwrites part of a cell')
                    del do.cells[c]
            if so.zero and not do.zero:
                # holes of a zeroed source must become explicit zeros: copy byte-granular is not
                # possible without types, so demand full coverage
                cov = sum(v[0] for _, v in cells)
                if cov != n:
                    raise Unsupported('mem copy from partially initialised zero object')
            for c, v in cells:
                do.cells[c - s.off + d.off] = v
            return None
        if base == 'memset':
            d, c, n = args[0], self.simp(args[1]), self.simp(args[2])
            if not isinstance(n, int) or not isinstance(c, int):
                raise Unsupported('memset with symbolic arguments')
            if n == 0:
                return None
            if c != 0:
                raise Unsupported('memset with non-zero byte')
            if not isinstance(d, Ptr) or not isinstance(d.off, int):
                raise Unsupported('memset through symbolic pointer')
            do = st.wobj(d.obj)
            if d.off < 0 or d.off + n > do.size:
                self.oblige(st, 'ub', 'out-of-bounds memset', False, where)
                st.pc = False
                return None
            if d.off == 0 and n == do.size:
                do.cells = {}
                do.zero = True
                return None
            for cc in list(do.cells):
                cn = do.cells[cc][0]
                if cc < d.off + n and d.off < cc + cn:
                    del do.cells[cc]
            if not do.zero:
                # explicit zero cells, 8-byte granularity where possible
                o = d.off
                while o < d.off + n:
                    w = 8 if (o % 8 == 0 and o + 8 <= d.off + n) else 4 if (o % 4 == 0 and o + 4 <= d.off + n) else 1
                    do.cells[o] = (w, 0)
                    o += w
            return None
        t = self.mod.resolve(ins.ty) if ins.ty is not None else None
        if base == 'fabs':
            a = args[0]
            if is_conc(a):
                return abs(a)
            if isinstance(a, Quot):   # |n/d| = |n|/|d| stays a lazily divided value (std::isinf/isnan of a quotient)
                an, ad = [abs(x) if is_conc(x) else z3.If(zreal(x) >= 0, zreal(x), -zreal(x)) for x in (a.n, a.d)]
                return Quot(an, ad)
            return z3.If(a >= 0, a, -a)
        if base == 'sqrt':
            return self.libm(st, 'sqrt', args, where)
        if base in ('floor', 'ceil', 'trunc', 'rint', 'nearbyint', 'round'):
            return self.libm(st, base, args, where)
        if base in ('exp', 'log', 'cos', 'sin', 'pow', 'log2', 'log10', 'exp2'):
            return self.libm(st, base, args, where)
        if base == 'fmuladd' or base == 'fma':
            return zreal(args[0]) * zreal(args[1]) + zreal(args[2]) if not all(is_conc(x) for x in args) else args[0] * args[1] + args[2]
        if base in ('smax', 'smin', 'umax', 'umin'):
            a, b = args
            if base[0] == 'u':
                # unsigned comparison of the two bit patterns; the chosen operand is returned unchanged
                if t is None or t.kind != 'int' or isinstance(a, (Ptr, PIte, bool)) or isinstance(b, (Ptr, PIte, bool)):
                    raise Unsupported('umax/umin on non-integer operands')
                if isinstance(a, int) and isinstance(b, int):
                    a_gt = self.to_unsigned(a, t.bits) > self.to_unsigned(b, t.bits)
                    return (a if a_gt else b) if base == 'umax' else (b if a_gt else a)
                a_gt = self.to_unsigned(zint(a), t.bits) > self.to_unsigned(zint(b), t.bits)
                return z3.If(a_gt, zint(a), zint(b)) if base == 'umax' else z3.If(a_gt, zint(b), zint(a))
            if isinstance(a, int) and isinstance(b, int):
                return max(a, b) if base == 'smax' else min(a, b)
            c = zint(a) > zint(b)
            return z3.If(c, zint(a), zint(b)) if base == 'smax' else z3.If(c, zint(b), zint(a))
        if base in ('maxnum', 'minnum'):
            a, b = args
            if is_conc(a) and is_conc(b):
                return max(a, b) if base == 'maxnum' else min(a, b)
            c = zreal(a) > zreal(b)
            return z3.If(c, zreal(a), zreal(b)) if base == 'maxnum' else z3.If(c, zreal(b), zreal(a))
        if base == 'abs':
            a = args[0]
            if isinstance(a, int):
                return abs(a)
            return z3.If(a >= 0, a, -a)
        if base == 'expect':
            return args[0]
        if base in ('ctlz', 'cttz'):
            # count leading / trailing zeros: concrete operands only (std::__lg of a concrete length in std::sort)
            a = args[0]
            if not isinstance(a, int) or isinstance(a, bool) or t is None or t.kind != 'int':
                raise Unsupported('%s of a symbolic value' % base)
            u = self.to_unsigned(a, t.bits)
            if u == 0:
                return t.bits
            if base == 'ctlz':
                return t.bits - u.bit_length()
            return (u & -u).bit_length() - 1
        if base == 'is':
            return False
        if base == 'objectsize':
            return -1
        if base == 'trap':
            self.oblige(st, 'ub', 'llvm.trap reached', False, where)
            st.pc = False
            return None
        if base in ('umul', 'uadd', 'usub', 'smul', 'sadd', 'ssub') and '.with.overflow.' in name:
            a, b = args
            bits = self.mod.resolve(ins.ops[1].ty).bits
            if base[0] == 'u':
                a, b = self.to_unsigned(a, bits), self.to_unsigned(b, bits)
            o = base[1:]
            if isinstance(a, int) and isinstance(b, int):
                r = a * b if o == 'mul' else a + b if o == 'add' else a - b
                if base[0] == 'u':
                    ov = r < 0 or r >= (1 << bits)
                else:
                    ov = not self.fits(r, bits)
                return [self.wrap(st, r, bits, where, ''), ov]
            za, zb = zint(a), zint(b)
            r = za * zb if o == 'mul' else za + zb if o == 'add' else za - zb
            if base[0] == 'u':
                ov = z3.Or(r < 0, r >= (1 << bits))
            else:
                ov = z3.Not(self.fits(r, bits))
            return [r, self.simp(ov)]
        if base == 'eh' and 'typeid' in name:
            return self.typeid_for(args[0])
        raise Unsupported('intrinsic ' + name)

    def typeid_for(self, p):
        if isinstance(p, Ptr) and p.obj is None:
            return 0
        if isinstance(p, Ptr):
            return 1 + (p.obj if isinstance(p.obj, int) else hash(p.obj) % 1000)
        raise Unsupported('typeid of symbolic pointer')

    def libm(self, st, name, args, where):
        args = [zreal(x) if isinstance(x, Quot) else x for x in args]
        a = args[0]
        if isinstance(a, tuple):
            raise Unsupported('libm on inf/nan')
        if name == 'sqrt':
            if is_conc(a):
                if a < 0:
                    self.oblige(st, 'fpspecial', 'sqrt of negative number', False, where)
                    st.pc = False
                    return UNDEF
                # exact rational root if it exists
                import math
                n, d = a.numerator, a.denominator
                rn, rd = math.isqrt(n), math.isqrt(d)
                if rn * rn == n and rd * rd == d:
                    return Fraction(rn, rd)
                if self.concrete_inputs is not None:
                    return Fraction(math.sqrt(float(a)))   # validation runs: the value the native libm returns
            if isinstance(a, Quot):
                # lazily divided argument n/d (d != 0 on the path): same root, stated without a division
                # (r >= 0, r*r*d == n; sign test cross-multiplied) - z3 gives up on the form with '/'
                ge0 = self.simp(self.quot_cmp('ge', a, 0))
                self.oblige(st, 'fpspecial', 'sqrt of negative number', ge0, where)
                st.pc = p_and(st.pc, ge0)
                r = self.fresh('real', 'sqrt')
                st.pc = p_and(st.pc, z3.And(r >= 0, r * r * zreal(a.d) == zreal(a.n)))
                return r
            za = zreal(a)
            self.oblige(st, 'fpspecial', 'sqrt of negative number', za >= 0, where)
            st.pc = p_and(st.pc, za >= 0)
            # opt-in (registry symex={'sqrt_memo': True}): sqrt of the same concrete argument is the same
            # algebraic number; reusing its variable keeps the number of algebraic unknowns small
            memo = self.uf.setdefault('__sqrt_memo', {}) if (self.opts.get('sqrt_memo') and is_conc(a)) else None
            r = memo.get(Fraction(a)) if memo is not None else None
            # opt-in (registry symex={'sqrt_memo_sym': True}): sqrt is a function, so a call on the structurally identical
            # symbolic argument reuses the variable of the earlier call (its defining constraint is re-asserted on this path below)
            msym = self.uf.setdefault('__sqrt_memo_sym', []) if (self.opts.get('sqrt_memo_sym') and not is_conc(a)) else None
            if r is None and msym is not None:
                r = next((rr for zz, rr in msym if zz.eq(za)), None)
            if r is None:
                r = self.fresh('real', 'sqrt')
                if memo is not None:
                    memo[Fraction(a)] = r
                if msym is not None:
                    msym.append((za, r))
            st.pc = p_and(st.pc, z3.And(r >= 0, r * r == za))
            return r
        if name in ('floor', 'ceil', 'trunc', 'rint', 'nearbyint', 'round'):
            if name in ('rint', 'nearbyint', 'round'):
                raise Unsupported('rounding function ' + name)
            if is_conc(a):
                import math
                return Fraction(math.floor(a) if name == 'floor' else math.ceil(a) if name == 'ceil' else int(a))
            za = zreal(a)
            fl = z3.ToReal(z3.ToInt(za))
            if name == 'floor':
                return fl
            if name == 'ceil':
                return -z3.ToReal(z3.ToInt(-za))
            return z3.If(za >= 0, fl, -z3.ToReal(z3.ToInt(-za)))
        # uninterpreted transcendental with optional exact values for concrete arguments
        exact = self.opts.get('libm_exact', {}).get(name)
        if exact and all(is_conc(x) for x in args):
            r = exact(*args)
            if r is not None:
                return r
        f = self.uf.get(name)
        if f is None:
            f = z3.Function('uf_' + name, *([z3.RealSort()] * (len(args) + 1)))
            self.uf[name] = f
        app = f(*[zreal(x) for x in args])
        hook = self.opts.get('libm_axioms', {}).get(name)
        if hook:
            for ax in hook(f, [zreal(x) for x in args], app):
                st.pc = p_and(st.pc, ax)
        self.uf.setdefault('__apps_' + name, []).append((args, app))
        return app

    def nondet(self, kind, lo=None, hi=None):
        ci = self.concrete_inputs
        if ci is not None:
            v = ci(kind, lo, hi)
            self.inputs.append((kind, v))
            return v
        if kind in ('int', 'uint', 'long', 'uchar', 'range'):
            v = self.fresh('int', 'in')
        elif kind == 'bool':
            v = self.fresh('bool', 'in')
        else:
            v = self.fresh('real', 'in')
        self.inputs.append((kind, v))
        return v

    def framework_call(self, st, fr, ins, name, args, where):
        """vf_* primitives; returns (handled, value)."""
        if name == 'vf_nondet_int':
            v = self.nondet('int')
            if not is_conc(v):
                st.pc = p_and(st.pc, self.fits(v, 32))
            return True, v
        if name == 'vf_nondet_uint':
            v = self.nondet('int')   # signed reading of the 32-bit pattern
            if not is_conc(v):
                st.pc = p_and(st.pc, self.fits(v, 32))
            return True, v
        if name == 'vf_nondet_long':
            v = self.nondet('long')
            if not is_conc(v):
                st.pc = p_and(st.pc, self.fits(v, 64))
            return True, v
        if name == 'vf_nondet_uchar':
            v = self.nondet('uchar')
            if not is_conc(v):
                st.pc = p_and(st.pc, z3.And(v >= -128, v <= 127))
            return True, v
        if name == 'vf_nondet_bool':
            return True, self.nondet('bool')
        if name in ('vf_nondet_double', 'vf_finite_double'):
            return True, self.nondet('double')
        if name == 'vf_range':
            lo, hi = args
            v = self.nondet('range', lo, hi)
            if not is_conc(v):
                st.pc = p_and(st.pc, z3.And(v >= zint(lo), v <= zint(hi)))
                if isinstance(lo, int) and isinstance(hi, int):
                    self.iabs[v.get_id()] = max(abs(lo), abs(hi))
                    self.abs_keep.append(v)
            return True, v
        if name == 'vf_grid_double':
            m = args[0]
            v = self.nondet('grid', -m if isinstance(m, int) else None, m)
            if is_conc(v):
                return True, Fraction(v)
            st.pc = p_and(st.pc, z3.And(z3.IsInt(v), v >= zreal(m) * -1, v <= zreal(m)))
            if isinstance(m, int):
                self.abs[v.get_id()] = (True, abs(m))
            return True, v
        if name == 'vf_assume':
            c = args[0]
            st.pc = p_and(st.pc, c if isinstance(c, bool) else zbool(c))
            return True, None
        if name == 'vf_assert_':
            sid = self.cstring(st, args[1])
            c = args[0]
            if c is UNDEF:
                c = False
            self.oblige(st, 'assert', sid, c if isinstance(c, bool) else zbool(c), where)
            self.assert_seen.append((sid, c))
            return True, None
        if name == 'vf_witness':
            self.witness.append(st.pc)
            return True, None
        if name == 'vf_split':
            c = args[0]
            if not isinstance(c, bool) and c is not UNDEF:
                c = zbool(c)
                if not any(c.eq(x) for x in self.splits):
                    self.splits.append(c)
            return True, None
        if name in ('vf_out_int', 'vf_out_double'):
            self.outputs.append(args[0])
            return True, None
        return False, None

    def cstring(self, st, p):
        if not isinstance(p, Ptr) or not isinstance(p.off, int):
            return '?'
        o = st.mem.get(p.obj)
        out = []
        off = p.off
        while True:
            c = o.cells.get(off)
            if c is None:
                break
            v = c[1]
            if not isinstance(v, int) or v == 0:
                break
            out.append(chr(v & 255))
            off += 1
        return ''.join(out)

    # ---------------------------------------------------------- main loop
    def key_of(self, st):
        k = []
        for f in st.frames:
            pos = self.wto_of(f.fn)[f.block.name]
            k.append((pos, f.idx, f.fn.name))
        return tuple(k)

    def wto_of(self, fn):
        w = self.wto.get(fn.name)
        if w is None:
            w = wto_positions(fn)
            self.wto[fn.name] = w
        return w

    def enter_block(self, st, fr, blk, pred):
        # phi nodes are evaluated in parallel on entry
        vals = []
        for ins in blk.instrs:
            if ins.op != 'phi':
                break
            for v, l in zip(ins.ops, ins.a['labels']):
                if l == pred:
                    vals.append((ins.res, self.val(st, fr, v) if v.k != 'undef' else UNDEF))
                    break
            else:
                raise Unsupported('phi without incoming edge')
        for r, v in vals:
            fr.regs[r] = v
        fr.block = blk
        fr.idx = len(vals)

    def run(self, entry):
        fn = self.mod.funcs[entry]
        st = State()
        fr = Frame(fn)
        fr.block = fn.blocks[0]
        st.frames.append(fr)
        self.assert_seen = []
        self.outputs = []
        self.final_states = []
        # opt-in (registry symex={'no_merge': True}): plain path enumeration, states reaching the same program point are
        # kept apart (a list per key) instead of merged - for kernels whose merged values (ite terms under products) are
        # what the solver cannot digest while the individual paths are few and simple
        nomerge = bool(self.opts.get('no_merge'))
        work = {self.key_of(st): [st] if nomerge else st}
        while work:
            key = min(work)
            st = work.pop(key)
            if nomerge:
                rest = st
                st = rest.pop()
                if rest:
                    work[key] = rest
            outs = self.step_block(st)
            for s2 in outs:
                if s2.pc is False:
                    continue
                if not s2.frames:
                    self.final_states.append(s2)
                    continue
                k2 = self.key_of(s2)
                other = work.get(k2)
                if other is None:
                    work[k2] = [s2] if nomerge else s2
                elif nomerge:
                    other.append(s2)
                else:
                    work[k2] = self.merge(other, s2)
        return self.obls

    def merge(self, a, b):
        self.stats['merges'] += 1
        c = a.pc   # in the merged state: values of a when a.pc holds
        m = State()
        m.pc = self.simp(p_or(a.pc, b.pc))
        cond = zbool(a.pc)
        for fa, fb in zip(a.frames, b.frames):
            f = Frame(fa.fn)
            f.block, f.idx, f.call_ins = fa.block, fa.idx, fa.call_ins
            f.allocas = fa.allocas + [x for x in fb.allocas if x not in fa.allocas]
            for r, va in fa.regs.items():
                vb = fb.regs.get(r, UNDEF)
                f.regs[r] = va if va is vb else ite(cond, va, vb)
            for r, vb in fb.regs.items():
                if r not in fa.regs:
                    f.regs[r] = vb
            m.frames.append(f)
        for oid, oa in a.mem.items():
            ob = b.mem.get(oid)
            if ob is None or ob is oa:
                m.mem[oid] = oa
                continue
            o = MemObj(oa.size, oa.kind, oa.zero and ob.zero, oa.name)
            if oa.freed is ob.freed or (isinstance(oa.freed, bool) and isinstance(ob.freed, bool) and oa.freed == ob.freed):
                o.freed = oa.freed
            else:
                o.freed = self.simp(z3.If(cond, zbool(oa.freed), zbool(ob.freed)))   # freed on one side only: keep the condition
            for off in set(oa.cells) | set(ob.cells):
                ca, cb = oa.cells.get(off), ob.cells.get(off)
                if ca is not None and cb is not None:
                    if ca[0] != cb[0]:
                        raise Unsupported('merge of differently sized cells (%s +%d: %d / %d bytes)' % (oa.name or oa.kind, off, ca[0], cb[0]))
                    o.cells[off] = (ca[0], ca[1] if ca[1] is cb[1] else ite(cond, ca[1], cb[1]))
                else:
                    have = ca or cb
                    other_zero = (ob.zero if ca is not None else oa.zero)
                    if other_zero and (oa.zero != ob.zero or True):
                        z = 0 if not isinstance(have[1], (Fraction, Ptr)) and not (isinstance(have[1], z3.ExprRef) and have[1].is_real()) else (Fraction(0) if not isinstance(have[1], Ptr) else NULL)
                        o.cells[off] = (have[0], ite(cond, have[1], z) if ca is not None else ite(cond, z, have[1]))
                    else:
                        o.cells[off] = have   # the other side never initialised it
            m.mem[oid] = o
            m.owned.add(oid)
        for oid, ob in b.mem.items():
            if oid not in a.mem:
                m.mem[oid] = ob
        if (a.exc is None) != (b.exc is None):
            raise Unsupported('merge of states with and without pending exception')
        m.exc = a.exc
        return m

    def step_block(self, st):
        """run st until the end of its current block (or a call boundary); return successor states."""
        while True:
            fr = st.frames[-1]
            blk = fr.block
            if fr.idx >= len(blk.instrs):
                raise Unsupported('fell off block')
            ins = blk.instrs[fr.idx]
            self.steps += 1
            if self.steps > self.max_steps:
                raise Unsupported('step budget exceeded (the analogue of an unwinding assertion)')
            where = '%s:%s' % (fr.fn.name, blk.name)
            op = ins.op
            if op == 'br':
                tg = ins.a['targets']
                if len(tg) == 1:
                    self.enter_block(st, fr, self.blk(fr.fn, tg[0]), blk.name)
                    return [st]
                c = self.val(st, fr, ins.ops[0])
                if c is UNDEF:
                    c = self.fresh('bool', 'undefbr')
                c = self.simp(c) if not isinstance(c, bool) else c
                if isinstance(c, bool):
                    self.enter_block(st, fr, self.blk(fr.fn, tg[0] if c else tg[1]), blk.name)
                    return [st]
                return self.fork_on(st, [(c, tg[0]), (z3.Not(c), tg[1])], blk)
            if op == 'switch':
                c = self.val(st, fr, ins.ops[0])
                if isinstance(c, int):
                    bits = self.mod.resolve(ins.ops[0].ty).bits
                    tgt = ins.a['default']
                    for cv, tl in ins.a['cases']:
                        cv &= (1 << bits) - 1
                        if cv >= 1 << (bits - 1):
                            cv -= 1 << bits
                        if cv == c:
                            tgt = tl
                            break
                    self.enter_block(st, fr, self.blk(fr.fn, tgt), blk.name)
                    return [st]
                alts = []
                others = []
                bits = self.mod.resolve(ins.ops[0].ty).bits
                for cv, tl in ins.a['cases']:
                    cv &= (1 << bits) - 1
                    if cv >= 1 << (bits - 1):
                        cv -= 1 << bits
                    alts.append((zint(c) == cv, tl))
                    others.append(zint(c) != cv)
                alts.append((z3.And(others) if others else True, ins.a['default']))
                return self.fork_on(st, alts, blk)
            if op == 'ret':
                rv = self.val(st, fr, ins.ops[0]) if ins.ops else None
                return self.do_return(st, rv)
            if op == 'unreachable':
                st.pc = False
                return []
            if op == 'resume':
                v = self.val(st, fr, ins.ops[0])
                st.exc = (v[0], v[1])
                return self.do_return(st, None, unwinding=True)
            if op in ('call', 'invoke'):
                r = self.do_call(st, fr, ins, where)
                if r is not None:
                    return r
                continue
            self.exec_simple(st, fr, ins, where)
            if st.pc is False:
                return []
            fr.idx += 1

    def blk(self, fn, name):
        bm = getattr(fn, '_bm', None)
        if bm is None:
            bm = {b.name: b for b in fn.blocks}
            fn._bm = bm
        return bm[name]

    def fork_on(self, st, alts, blk):
        fr = st.frames[-1]
        out = []
        live = []
        for c, tl in alts:
            pc = self.simp(p_and(st.pc, c))
            if pc is False:
                continue
            live.append((pc, tl))
        feas = []
        for pc, tl in live:
            if len(live) == 1 or self.feasible(pc):
                feas.append((pc, tl))
        self.stats['forks'] += max(0, len(feas) - 1)
        for i, (pc, tl) in enumerate(feas):
            s2 = st if i == len(feas) - 1 else st.fork()
            s2.pc = pc
            self.enter_block(s2, s2.frames[-1], self.blk(fr.fn, tl), blk.name)
            out.append(s2)
        return out

    def do_return(self, st, rv, unwinding=False):
        fr = st.frames.pop()
        for oid in fr.allocas:
            if oid in st.mem:
                del st.mem[oid]
                st.owned.discard(oid)
        if not st.frames:
            st.retval = rv
            return [st]
        caller = st.frames[-1]
        ins = fr.call_ins
        if st.exc is not None:
            if ins.op == 'invoke':
                self.enter_block(st, caller, self.blk(caller.fn, ins.a['unwind']), caller.block.name)
                return [st]
            return self.do_return(st, None, unwinding=True)
        if ins.res is not None and ins.ty.kind != 'void':
            caller.regs[ins.res] = rv
        if ins.op == 'invoke':
            self.enter_block(st, caller, self.blk(caller.fn, ins.a['normal']), caller.block.name)
        else:
            caller.idx += 1
        return [st]

    def do_call(self, st, fr, ins, where):
        callee = ins.ops[0]
        c = callee
        while c.k == 'cexpr' and c.v == 'bitcast':
            c = c.ops[0]
        args = [self.val(st, fr, a) if a.k != 'meta' else None for a in ins.ops[1:]]
        if c.k == 'global':
            name = c.v
        else:
            fp = self.val(st, fr, callee)
            if isinstance(fp, PIte):
                raise Unsupported('indirect call through merged function pointer')
            if not isinstance(fp, Ptr) or not isinstance(fp.obj, tuple):
                raise Unsupported('indirect call through %r' % (fp,))
            name = fp.obj[1]
        seen = 0
        while name in self.mod.aliases and seen < 10:
            name = self.mod.aliases[name]
            seen += 1

        ctr = self.opts.get('contracts')
        if ctr and name == fr.fn.name and name in ctr:
            name = ctr[name]

        def finish(v):
            if ins.res is not None and ins.ty.kind != 'void':
                fr.regs[ins.res] = v
            if st.exc is not None:
                if ins.op == 'invoke':
                    self.enter_block(st, fr, self.blk(fr.fn, ins.a['unwind']), fr.block.name)
                    return [st]
                return self.do_return_exc(st)
            if ins.op == 'invoke':
                self.enter_block(st, fr, self.blk(fr.fn, ins.a['normal']), fr.block.name)
                return [st]
            fr.idx += 1
            return None

        if name.startswith('llvm.'):
            v = self.do_intrinsic(st, fr, ins, name, args, where)
            if st.pc is False:
                return []
            return finish(v)
        ok, v = self.framework_call(st, fr, ins, name, args, where)
        if ok:
            if st.pc is False:
                return []
            return finish(v)
        ov = self.overrides.get(name)
        if ov is not None:
            v = ov(self, st, args, where)
            if st.pc is False:
                return []
            return finish(v)
        f = self.mod.funcs.get(name)
        if f is None:
            raise Unsupported('call to unknown ' + name)
        if f.is_decl:
            v = self.external(st, fr, ins, name, args, where)
            if st.pc is False:
                return []
            return finish(v)
        # real call
        self.encoded.add(name)
        nf = Frame(f)
        nf.call_ins = ins
        for (t, pn, pa), a in zip(f.params, args):
            if 'byval' in pa:
                et = t.elem
                oid = self.new_obj(st, self.size(et), 'stack', name='byval')
                nf.allocas.append(oid)
                self.store_val(st, st.mem[oid], 0, et, self.access(st, a, et, where))
                a = Ptr(oid, 0)
            nf.regs[pn] = a
        nf.block = f.blocks[0]
        nf.idx = 0
        if len(st.frames) > self.opts.get('max_depth', 64):
            raise Unsupported('call depth exceeded')
        st.frames.append(nf)
        return [st]

    def do_return_exc(self, st):
        # propagate pending exception out of the current frame
        return self.do_return(st, None, unwinding=True)

    def external(self, st, fr, ins, name, args, where):
        if name in ('malloc', '_Znwm', '_Znam', 'calloc'):
            n = self.simp(args[0])
            if name == 'calloc':
                n2 = self.simp(args[1])
                n = n * n2 if isinstance(n, int) and isinstance(n2, int) else None
            if not isinstance(n, int):
                n = self.unique_value(st, n)   # symbolic term with a single possible value on this path
            if not isinstance(n, int):
                raise Unsupported('allocation of symbolic size')
            if n < 0:
                n = 0
            oid = self.new_obj(st, n, 'heap', zero=(name == 'calloc'), name='heap%d' % (self.nobj + 1))
            return Ptr(oid, 0)
        if name in ('free', '_ZdlPv', '_ZdaPv', '_ZdlPvm', '_ZdaPvm'):
            p = args[0]
            if isinstance(p, Ptr) and p.obj is not None and not isinstance(p.obj, tuple):
                o = st.mem.get(p.obj)
                if o is not None:
                    if o.freed is not False:
                        self.oblige(st, 'ub', 'double free', False if o.freed is True else self.simp(z3.Not(o.freed)), where)
                    if o.kind != 'heap':
                        self.oblige(st, 'ub', 'free of non-heap object', False, where)
                    o = st.wobj(p.obj)
                    o.freed = True
            elif isinstance(p, PIte):
                pass
            return None
        if name in ('_Z7messerrPKcz', '_Z7messagePKcz', '_Z8mesArgIntPKciib', '_Z7mesArgsPKcii'):
            return None
        if name in ('sqrt', 'exp', 'log', 'cos', 'sin', 'atan', 'pow', 'log2', 'log10', 'acos', 'asin', 'tan',
                    'atan2', 'floor', 'ceil', 'fabs', 'cosh', 'sinh', 'tanh', 'lgamma', 'tgamma', 'fmod'):
            if name == 'fabs':
                a = args[0]
                if isinstance(a, Quot):
                    a = zreal(a)
                return abs(a) if is_conc(a) else z3.If(a >= 0, a, -a)
            return self.libm(st, name, args, where)
        if name == '__cxa_allocate_exception':
            oid = self.new_obj(st, self.simp(args[0]), 'heap', name='exception')
            return Ptr(oid, 0)
        if name == '__cxa_throw':
            st.exc = (args[0], self.typeid_for(args[1]))
            return None
        if name == '__cxa_begin_catch':
            st.exc = None
            return args[0]
        if name in ('__cxa_end_catch', '__cxa_free_exception'):
            return None
        if name.startswith('_ZSt') and '__throw_' in name:
            st.exc = (NULL, 15)
            return None
        if name == '__cxa_pure_virtual':
            raise Unsupported('pure virtual call')
        raise Unsupported('UNMODELLED external ' + name)

    def exec_simple(self, st, fr, ins, where):
        op = ins.op
        R = ins.res
        if op in ('add', 'sub', 'mul', 'udiv', 'sdiv', 'urem', 'srem', 'shl', 'lshr', 'ashr', 'and', 'or', 'xor',
                  'fadd', 'fsub', 'fmul', 'fdiv', 'frem'):
            a, b = self.val(st, fr, ins.ops[0]), self.val(st, fr, ins.ops[1])
            fr.regs[R] = self.binop(st, ins, a, b, where)
        elif op == 'fneg':
            a = self.val(st, fr, ins.ops[0])
            fr.regs[R] = -a if not isinstance(a, tuple) and a is not UNDEF else a
        elif op == 'icmp':
            a, b = self.val(st, fr, ins.ops[0]), self.val(st, fr, ins.ops[1])
            fr.regs[R] = self.icmp(st, ins.a['pred'], a, b, ins.ops[0].ty)
        elif op == 'fcmp':
            a, b = self.val(st, fr, ins.ops[0]), self.val(st, fr, ins.ops[1])
            fr.regs[R] = self.fcmp(st, ins.a['pred'], a, b, where)
        elif op in ('trunc', 'zext', 'sext', 'fptrunc', 'fpext', 'fptoui', 'fptosi', 'uitofp', 'sitofp', 'ptrtoint',
                    'inttoptr', 'bitcast', 'addrspacecast'):
            fr.regs[R] = self.cast(st, ins, self.val(st, fr, ins.ops[0]), where)
        elif op == 'getelementptr':
            base = self.val(st, fr, ins.ops[0])
            idx = [self.val(st, fr, o) for o in ins.ops[1:]]
            fr.regs[R] = self.gep(st, base, ins.a['sty'], idx, ins.ops[1:])
        elif op == 'load':
            p = self.val(st, fr, ins.ops[0])
            fr.regs[R] = self.access(st, p, ins.ty, where)
        elif op == 'store':
            v = self.val(st, fr, ins.ops[0])
            p = self.val(st, fr, ins.ops[1])
            self.access(st, p, ins.ops[0].ty, where, store=v)
        elif op == 'alloca':
            n = 1
            if ins.ops:
                n = self.simp(self.val(st, fr, ins.ops[0]))
                if not isinstance(n, int):
                    raise Unsupported('alloca of symbolic count')
            oid = self.new_obj(st, self.size(ins.a['aty']) * n, 'stack', name='%s.%s' % (fr.fn.name[:40], R))
            fr.allocas.append(oid)
            fr.regs[R] = Ptr(oid, 0)
        elif op == 'select':
            c = self.val(st, fr, ins.ops[0])
            a, b = self.val(st, fr, ins.ops[1]), self.val(st, fr, ins.ops[2])
            if c is UNDEF:
                c = self.fresh('bool', 'undefsel')
            fr.regs[R] = ite(c if isinstance(c, bool) else zbool(c), a, b)
        elif op == 'freeze':
            fr.regs[R] = self.val(st, fr, ins.ops[0])
        elif op == 'extractvalue':
            v = self.val(st, fr, ins.ops[0])
            for ix in ins.a['idx']:
                v = v[ix] if v is not UNDEF else UNDEF
            fr.regs[R] = v
        elif op == 'insertvalue':
            agg = self.val(st, fr, ins.ops[0])
            e = self.val(st, fr, ins.ops[1])

            def ins_at(a, idx):
                a = list(a)
                if len(idx) == 1:
                    a[idx[0]] = e
                else:
                    a[idx[0]] = ins_at(a[idx[0]], idx[1:])
                return a
            fr.regs[R] = ins_at(agg, ins.a['idx'])
        elif op == 'landingpad':
            if st.exc is None:
                raise Unsupported('landingpad without pending exception')
            fr.regs[R] = [st.exc[0], st.exc[1]]
            st.exc = None
        elif op == 'phi':
            raise Unsupported('phi not at block entry')
        elif op == 'atomicrmw':
            p = self.val(st, fr, ins.ops[0])
            v = self.val(st, fr, ins.ops[1])
            old = self.access(st, p, ins.ty, where)
            bop = ins.a['bop']
            if bop == 'xchg':
                new = v
            elif bop in ('add', 'sub'):
                if isinstance(old, int) and isinstance(v, int):
                    new = old + v if bop == 'add' else old - v
                else:
                    new = zint(old) + zint(v) if bop == 'add' else zint(old) - zint(v)
            else:
                raise Unsupported('atomicrmw ' + bop)
            self.access(st, p, ins.ty, where, store=new)
            fr.regs[R] = old
        elif op == 'fence':
            pass
        else:
            raise Unsupported('instruction ' + op)


# ------------------------------------------------------------------ discharge
_TASKS = []
_SEED = 0
_TMO = 60000
_AX = ()
_INPUTS = []


def _model_vals(m):
    out = []
    for kind, v in _INPUTS:
        if isinstance(v, (int, bool, Fraction)):
            out.append(str(v))
            continue
        val = m.eval(v, model_completion=True)
        if z3.is_int_value(val):
            out.append(str(val.as_long()))
        elif z3.is_rational_value(val):
            out.append('%d/%d' % (val.numerator_as_long(), val.denominator_as_long()))
        elif z3.is_true(val) or z3.is_false(val):
            out.append('1' if z3.is_true(val) else '0')
        elif z3.is_algebraic_value(val):
            a = val.approx(40)
            out.append('%d/%d' % (a.numerator_as_long(), a.denominator_as_long()))
        else:
            out.append('0')
    return out


def _solve(ti):
    q, mode = _TASKS[ti]
    t0 = time.time()
    mv = None
    s = z3.SimpleSolver() if mode == 'smt' else z3.Solver()
    s.set('timeout', _TMO)
    if _SEED:
        s.set('random_seed', _SEED)
        z3.set_param('nlsat.seed', _SEED)
        z3.set_param('sat.random_seed', _SEED)
    for a in _AX:
        s.add(a)
    s.add(q)
    r = s.check()
    if r == z3.sat:
        mv = _model_vals(s.model())
    return ti, str(r), time.time() - t0, mv


def _run_tasks(n, jobs, hard_cap_s, groups=None):
    """one forked child per query (inherits the formulas), hard wall-clock cap enforced by kill:
    z3's own timeout is soft and nlsat can overrun it by minutes."""
    import os
    import pickle
    import select
    results = []
    pending = list(range(n))
    running = {}   # fd -> (pid, ti, t0, buf)
    decided = set()   # groups (obligation, case) already answered by one strategy: siblings are cancelled
    while pending or running:
        while pending and len(running) < max(1, jobs):
            ti = pending.pop(0)
            r, w = os.pipe()
            pid = os.fork()
            if pid == 0:
                os.close(r)
                try:
                    out = _solve(ti)
                except Exception as ex:   # noqa
                    out = (ti, 'unknown', 0.0, None)
                try:
                    os.write(w, pickle.dumps(out))
                finally:
                    os._exit(0)
            os.close(w)
            running[r] = [pid, ti, time.time(), b'']
        if not running:
            continue
        rl, _, _ = select.select(list(running), [], [], 0.5)
        now = time.time()
        for fd in list(running):
            if fd not in running:
                continue
            pid, ti, t0, buf = running[fd]
            done = False
            if fd in rl:
                chunk = os.read(fd, 1 << 20)
                if chunk:
                    running[fd][3] = buf + chunk
                    continue
                done = True
            elif now - t0 > hard_cap_s:
                try:
                    os.kill(pid, 9)
                except OSError:
                    pass
                done = True
                running[fd][3] = b''
            if done:
                os.close(fd)
                try:
                    os.waitpid(pid, 0)
                except OSError:
                    pass
                data = running[fd][3]
                del running[fd]
                if data:
                    try:
                        out = pickle.loads(data)
                        results.append(out)
                        if groups is not None and out[1] in ('sat', 'unsat'):
                            g = groups[ti]
                            decided.add(g)
                            for t2 in [t for t in pending if groups[t] == g]:
                                pending.remove(t2)
                                results.append((t2, 'skipped', 0.0, None))
                            for fd2 in [f for f in running if groups[running[f][1]] == g]:
                                try:
                                    os.kill(running[fd2][0], 9)
                                    os.waitpid(running[fd2][0], 0)
                                except OSError:
                                    pass
                                os.close(fd2)
                                results.append((running[fd2][1], 'skipped', now - running[fd2][2], None))
                                del running[fd2]
                        continue
                    except Exception:   # noqa
                        pass
                results.append((ti, 'unknown', now - t0, None))
    return results


def discharge(eng, obls, timeout_ms=60000, axioms=(), jobs=8, max_cases=4096, modes=('default', 'smt')):
    """decide every obligation: unsat(pc & !cond) = holds within the bound.  Assert obligations are
    split over the harness's vf_split() predicates (exhaustive case analysis, decided in parallel)."""
    global _TASKS, _TMO, _AX, _INPUTS
    import multiprocessing as mp
    tasks = []
    owner = []
    splits = getattr(eng, 'splits', [])
    for oi, o in enumerate(obls):
        if o.cond is False:
            q = o.pc
        else:
            q = p_and(o.pc, p_not(o.cond if isinstance(o.cond, bool) else zbool(o.cond)))
        q = eng.simp(q) if not isinstance(q, bool) else q
        o.cases = 0
        o.model_vals = None
        if q is False:
            o.verdict = 'unsat'
            o.seconds = 0.0
            o.trivial = True
            continue
        o.trivial = False
        q = zbool(q)
        if o.kind == 'assert' and splits and 2 ** len(splits) <= max_cases:
            for bits in itertools.product((True, False), repeat=len(splits)):
                lits = [c if b else z3.Not(c) for c, b in zip(splits, bits)]
                for mode in modes:
                    tasks.append((z3.And([q] + lits), mode))
                    owner.append((oi, o.cases))
                o.cases += 1
        else:
            for mode in modes:
                tasks.append((q, mode))
                owner.append((oi, 0))
            o.cases = 1
    _TASKS, _TMO, _AX, _INPUTS = tasks, timeout_ms, tuple(axioms), eng.inputs
    import os as _os
    global _SEED
    _SEED = 0
    results = _run_tasks(len(tasks), jobs, timeout_ms / 1000.0 * 1.15 + 3.0,
                         None if _os.environ.get('VF_CROSSCHECK') else owner)
    # second chance for the cases no strategy decided: other random seeds, twice the time (z3 is erratic on
    # nonlinear queries; an undecided obligation makes the whole check inconclusive)
    decided_cases = set(owner[ti] for ti, r, dt, mv in results if r in ('sat', 'unsat'))
    retry = [ti for ti in range(len(tasks)) if owner[ti] not in decided_cases]
    if retry and not _os.environ.get('VF_NO_RETRY'):
        _SEED = 7
        _TMO = timeout_ms * 2
        sub = retry
        _TASKS = [tasks[ti] for ti in sub]
        res2 = _run_tasks(len(sub), jobs, _TMO / 1000.0 * 1.15 + 3.0, [owner[ti] for ti in sub])
        results = [x for x in results if owner[x[0]] in decided_cases] + [(sub[ti], r, dt, mv) for ti, r, dt, mv in res2]
        _TASKS = tasks
        eng.retried_cases = len(set(owner[ti] for ti in sub))
    # portfolio of two z3 strategies per query (default tactic pipeline / plain SMT core): a case is decided
    # by whichever answers; contradictory answers make the obligation inconclusive
    per_case = {}
    for ti, r, dt, mv in results:
        oi, ci = owner[ti]
        c = per_case.setdefault((oi, ci), {'sat': 0, 'unsat': 0, 'unknown': 0, 'secs': 0.0, 'mv': None})
        if r == 'skipped':
            continue
        c[r if r in ('sat', 'unsat') else 'unknown'] += 1
        c['secs'] += dt
        if mv is not None and c['mv'] is None:
            c['mv'] = mv
    agg = {}
    for (oi, ci), c in per_case.items():
        a = agg.setdefault(oi, {'sat': 0, 'unsat': 0, 'unknown': 0, 'secs': 0.0, 'mv': None})
        a['secs'] += c['secs']
        if c['sat'] and c['unsat']:
            a['unknown'] += 1
        elif c['sat']:
            a['sat'] += 1
            a['mv'] = a['mv'] or c['mv']
        elif c['unsat']:
            a['unsat'] += 1
        else:
            a['unknown'] += 1
    for oi, a in agg.items():
        o = obls[oi]
        o.seconds = a['secs']
        if a['sat']:
            o.verdict = 'sat'
            o.model_vals = a['mv']
        elif a['unknown']:
            o.verdict = 'unknown'
        else:
            o.verdict = 'unsat'
    eng.queries_discharged = len(tasks)
    return obls
