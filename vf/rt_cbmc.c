/* runtime for the cbmc build of generated C: nondet sources (logged through the
   vf_in_* locals so the counterexample's inputs can be read off the trace) */
#include <stdint.h>
#include <stdlib.h>
int vf_exc; void* vf_exc_obj; int vf_exc_sel;
static int vf_in_int; static unsigned vf_in_uint; static long vf_in_long; static unsigned char vf_in_uchar; static _Bool vf_in_bool; static double vf_in_double;
int nondet_int(void); unsigned nondet_uint(void); long nondet_long(void);
unsigned char nondet_uchar(void); _Bool nondet_bool(void); double nondet_double(void);
uint32_t f_vf_nondet_int(void)  { vf_in_int = nondet_int(); return (uint32_t)vf_in_int; }
uint32_t f_vf_nondet_uint(void) { vf_in_uint = nondet_uint(); return vf_in_uint; }
uint64_t f_vf_nondet_long(void) { vf_in_long = nondet_long(); return (uint64_t)vf_in_long; }
uint8_t  f_vf_nondet_uchar(void){ vf_in_uchar = nondet_uchar(); return vf_in_uchar; }
_Bool    f_vf_nondet_bool(void) { vf_in_bool = nondet_bool(); return vf_in_bool; }
double   f_vf_nondet_double(void){ vf_in_double = nondet_double(); return vf_in_double; }
uint32_t f_vf_range(uint32_t lo, uint32_t hi) {
  vf_in_int = nondet_int();
  __CPROVER_assume(vf_in_int >= (int)lo && vf_in_int <= (int)hi);
  return (uint32_t)vf_in_int;
}
double f_vf_grid_double(uint32_t m) {
  vf_in_int = nondet_int();
  __CPROVER_assume(vf_in_int >= -(int)m && vf_in_int <= (int)m);
  return (double)vf_in_int;
}
double f_vf_finite_double(void) {
  vf_in_double = nondet_double();
  __CPROVER_assume(vf_in_double == vf_in_double && vf_in_double < 1.0e300 && vf_in_double > -1.0e300);
  return vf_in_double;
}
void vf_assert_rt(_Bool c, const char* id) { (void)c; (void)id; }
void vf_assume_rt(_Bool c) { (void)c; }
void vf_witness_rt(void) {}
void vf_nuw(_Bool ok) { __CPROVER_assert(ok, "arithmetic overflow on unsigned (nuw)"); }
void f_vf_out_int(uint64_t v) { (void)v; }
void f_vf_out_double(double v) { (void)v; }
