/* runtime pieces common to the cbmc build and the gcc build of generated C */
#include <stdint.h>
#include <stdlib.h>
#include <string.h>
int vf_exc; void* vf_exc_obj; int vf_exc_sel;
