"""E1: LLVM IR (clang-14, typed pointers) -> C for cbmc / gcc.

Integers are emitted as unsigned machine words; operations carrying nsw are done
in the signed type so that cbmc's --signed-overflow-check sees C++ UB.  Exceptions
are modelled with a pending flag (vf_exc).  Functions that are only address-taken
(vtable slots) are emitted as trap stubs unless whitelisted.
"""
import re
import sys
from ir_parse import (IRError, VOID, I1, I8, I32, I64, PtrT, ArrT, StructT, FuncT, IntT, Val,
                      successors, load)

LIBM1 = {'sqrt', 'fabs', 'floor', 'ceil', 'exp', 'log', 'log2', 'log10', 'cos', 'sin', 'tan', 'atan',
         'acos', 'asin', 'cosh', 'sinh', 'tanh', 'round', 'trunc', 'rint', 'nearbyint', 'exp2',
         'lgamma', 'tgamma', 'erf', 'erfc', 'cbrt', 'expm1', 'log1p'}
LIBM2 = {'pow', 'atan2', 'fmod', 'fmin', 'fmax', 'copysign', 'hypot'}


def san(name):
    s = re.sub(r'[^A-Za-z0-9_]', lambda m: '_%02x' % ord(m.group(0)), name)
    return s


class Ctx:
    def __init__(self, mod, entries, vcall_allow=(), stubs_defined=(), strict_nuw=False, log=None, contracts=None):
        self.mod = mod
        self.entries = entries
        self.vcall_allow = [re.compile(x) for x in vcall_allow]
        self.stubs = set(stubs_defined)
        self.tnames = {}      # type string -> C typedef name
        self.tdecls = []      # typedef lines in order
        self.struct_done = {}
        self.struct_defs = []
        self.out_funcs = []
        self.protos = []
        self.needed_funcs = []   # worklist
        self.seen_funcs = {}
        self.addr_taken = set()
        self.needed_globals = []
        self.seen_globals = {}
        self.global_defs = []
        self.externals = set()
        self.trap_stubs = set()
        self.assert_ids = []
        self.strict_nuw = strict_nuw
        self.encoded = []
        self.helpers_needed = set()
        self.contracts = contracts or {}
        self.contract_uses = []

    # ------------------------------------------------------------ types
    def ct(self, t):
        key = t.s()
        n = self.tnames.get(key)
        if n:
            return n
        k = t.kind
        if k == 'void':
            n = 'void'
        elif k == 'int':
            b = t.bits
            if b == 1:
                n = '_Bool'
            elif b <= 8:
                n = 'uint8_t'
            elif b <= 16:
                n = 'uint16_t'
            elif b <= 32:
                n = 'uint32_t'
            elif b <= 64:
                n = 'uint64_t'
            elif b <= 128:
                n = 'vf_u128'
            else:
                raise IRError('int width %d' % b)
            if b not in (1, 8, 16, 32, 64, 128):
                raise IRError('odd int width i%d' % b)
        elif k == 'float':
            if t.name == 'double':
                n = 'double'
            elif t.name == 'float':
                n = 'float'
            elif t.name == 'x86_fp80':
                n = 'long double'
            else:
                raise IRError('float type ' + t.name)
        elif k == 'ptr':
            e = t.elem
            if e.kind == 'func':
                fn = self.ct(e)
                n = 'T%d' % len(self.tnames)
                self.tnames[key] = n
                self.tdecls.append('typedef %s *%s;' % (fn, n))
                return n
            if e.kind == 'struct' and e.name is not None:
                self.fwd_struct(e.name)
                n = 'T%d' % len(self.tnames)
                self.tnames[key] = n
                self.tdecls.append('typedef struct s_%s *%s;' % (san(e.name), n))
                return n
            if e.kind == 'void':
                en = 'void'
            else:
                en = self.ct(e)
            n = 'T%d' % len(self.tnames)
            self.tnames[key] = n
            self.tdecls.append('typedef %s *%s;' % (en, n))
            return n
        elif k == 'arr':
            en = self.ct(t.elem)
            self.need_complete(t.elem)
            n = 'T%d' % len(self.tnames)
            self.tnames[key] = n
            self.tdecls.append('typedef %s %s[%d];' % (en, n, max(t.n, 0)))
            return n
        elif k == 'struct':
            if t.name is not None:
                self.fwd_struct(t.name)
                self.def_struct(t.name)
                n = 'struct s_%s' % san(t.name)
            else:
                if t.opaque:
                    raise IRError('anonymous opaque')
                n = 'T%d' % len(self.tnames)
                self.tnames[key] = n
                fields = []
                for i, f in enumerate(t.fields):
                    self.need_complete(f)
                    fields.append('%s f%d;' % (self.ct(f), i))
                if not fields:
                    fields = ['char vf_empty[0];']
                self.tdecls.append('typedef struct %s{ %s } %s;' % (
                    '__attribute__((packed)) ' if t.packed else '', ' '.join(fields), n))
                return n
        elif k == 'func':
            ps = [self.ct(p) for p in t.params]
            if t.vararg:
                ps.append('...')
            if not ps:
                ps = ['void']
            rn = self.ct(t.ret)
            n = 'T%d' % len(self.tnames)
            self.tnames[key] = n
            self.tdecls.append('typedef %s %s(%s);' % (rn, n, ', '.join(ps)))
            return n
        elif k == 'vec':
            raise IRError('vector type ' + key)
        else:
            raise IRError('type ' + key)
        self.tnames[key] = n
        return n

    def fwd_struct(self, name):
        if name not in self.struct_done:
            self.struct_done[name] = 'fwd'
            self.tdecls.append('struct s_%s;' % san(name))

    def need_complete(self, t):
        if t.kind == 'struct' and t.name is not None:
            self.def_struct(t.name)
        elif t.kind == 'arr':
            self.need_complete(t.elem)

    def def_struct(self, name):
        st = self.struct_done.get(name)
        if st == 'done' or st == 'busy':
            return
        t = self.mod.structs.get(name)
        if t is None or t.opaque:
            return  # stays incomplete
        self.fwd_struct(name)
        self.struct_done[name] = 'busy'
        fields = []
        for i, f in enumerate(t.fields):
            self.need_complete(f)
            fields.append('  %s f%d;' % (self.ct(f), i))
        if not fields:
            fields = ['  char vf_empty[0];']
        self.struct_done[name] = 'done'
        self.tdecls.append('struct %ss_%s {\n%s\n};' % (
            '__attribute__((packed)) ' if t.packed else '', san(name), '\n'.join(fields)))
        try:
            sz = self.mod.sizeof(t)
            self.tdecls.append('_Static_assert(sizeof(struct s_%s) == %d, "layout %s");' % (san(name), sz, san(name)))
        except IRError:
            pass

    # ------------------------------------------------------------ symbols
    def resolve_alias(self, name):
        seen = 0
        while name in self.mod.aliases and seen < 10:
            name = self.mod.aliases[name]
            seen += 1
        return name

    def fname(self, name):
        return 'f_' + san(name)

    def need_func(self, name, called):
        name = self.resolve_alias(name)
        if name not in self.seen_funcs:
            self.seen_funcs[name] = called
            self.needed_funcs.append(name)
        elif called and not self.seen_funcs[name]:
            self.seen_funcs[name] = True
            if name in self.trap_stubs:
                self.trap_stubs.discard(name)
                self.needed_funcs.append(name)
        return self.fname(name)

    def need_global(self, name):
        name = self.resolve_alias(name)
        if name in self.mod.funcs:
            return None
        if name not in self.seen_globals:
            self.seen_globals[name] = True
            self.needed_globals.append(name)
        return 'g_' + san(name)

    # ------------------------------------------------------------ constants
    def intlit(self, v, bits):
        v &= (1 << bits) - 1
        if bits == 1:
            return '1' if v else '0'
        if bits <= 32:
            return '((%s)%dU)' % (self.ct(IntT(bits)), v)
        if bits <= 64:
            return 'UINT64_C(%d)' % v
        hi, lo = v >> 64, v & ((1 << 64) - 1)
        return '((((vf_u128)UINT64_C(%d))<<64)|UINT64_C(%d))' % (hi, lo)

    def fplit(self, val):
        kind, bits = val.v
        if kind == 'double':
            import struct
            d = struct.unpack('<d', struct.pack('<Q', bits))[0]
            if d != d:
                return '__builtin_nan("")'
            if d in (float('inf'), float('-inf')):
                return '(-__builtin_inf())' if d < 0 else '__builtin_inf()'
            return '(%s)' % d.hex()
        if kind == 'float':
            import struct
            d = struct.unpack('<f', struct.pack('<I', bits))[0]
            if d != d:
                return '__builtin_nanf("")'
            if d in (float('inf'), float('-inf')):
                return '(-__builtin_inff())' if d < 0 else '__builtin_inff()'
            return '((float)%s)' % float(d).hex()
        raise IRError('fp literal kind ' + kind)

    def const_init(self, v, ty):
        """C initializer (brace form allowed) for constant v of type ty."""
        ty = self.mod.resolve(ty)
        if v.k == 'zero' or v.k == 'undef':
            if ty.kind in ('struct', 'arr'):
                return '{0}'
            return self.zero(ty)
        if v.k == 'agg':
            if ty.kind == 'struct':
                parts = [self.const_init(o, o.ty) for o in v.ops]
                if not parts:
                    return '{0}'
                return '{ ' + ', '.join(parts) + ' }'
            parts = [self.const_init(o, o.ty) for o in v.ops]
            return '{ ' + ', '.join(parts) + ' }'
        if v.k == 'cstr':
            return '{ ' + ', '.join(str(b) for b in v.v) + ' }'
        return self.expr(v, ty)

    def zero(self, ty):
        ty = self.mod.resolve(ty)
        if ty.kind == 'int':
            return self.intlit(0, ty.bits)
        if ty.kind == 'float':
            return '0.0'
        if ty.kind == 'ptr':
            return '((%s)0)' % self.ct(ty)
        if ty.kind in ('struct', 'arr'):
            return '((%s){0})' % self.ct(ty)
        raise IRError('zero of ' + ty.s())

    def expr(self, v, ty=None):
        ty = ty or v.ty
        k = v.k
        if k == 'local':
            return 'v_' + san(v.v)
        if k == 'int':
            return self.intlit(v.v, ty.bits)
        if k == 'fp':
            return self.fplit(v)
        if k == 'null':
            return '((%s)0)' % self.ct(ty)
        if k in ('undef', 'zero'):
            return self.zero(ty)
        if k == 'global':
            name = self.resolve_alias(v.v)
            if name in self.mod.funcs:
                fn = self.need_func(name, False)
                self.addr_taken.add(name)
                f = self.mod.funcs[name]
                want = self.ct(ty) if ty is not None else None
                if want:
                    return '((%s)%s)' % (want, fn)
                return fn
            g = self.need_global(name)
            gl = self.mod.globals.get(name)
            if gl is None:
                raise IRError('unknown global @' + name)
            return '((%s)&%s)' % (self.ct(ty if ty is not None else PtrT(gl.ty)), g)
        if k == 'cexpr':
            return self.cexpr(v)
        if k == 'agg':
            return '((%s)%s)' % (self.ct(ty), self.const_init(v, ty))
        raise IRError('expr of %r' % v)

    def cexpr(self, v):
        op = v.v
        if op == 'getelementptr':
            return self.gep(v.extra['sty'], v.ops, v.ty)
        if op in ('bitcast', 'inttoptr', 'ptrtoint', 'trunc', 'zext', 'sext', 'addrspacecast',
                  'fptrunc', 'fpext', 'fptoui', 'fptosi', 'uitofp', 'sitofp'):
            return self.cast(op, v.ops[0], v.ty)
        if op in ('add', 'sub', 'mul', 'and', 'or', 'xor', 'shl', 'lshr', 'ashr', 'udiv', 'sdiv', 'urem', 'srem'):
            return self.binop(op, v.ops[0], v.ops[1], v.ops[0].ty, v.extra.get('flags', set()))
        if op == 'icmp':
            return self.icmp(v.extra['pred'], v.ops[0], v.ops[1])
        if op == 'select':
            return '(%s ? %s : %s)' % (self.expr(v.ops[0]), self.expr(v.ops[1]), self.expr(v.ops[2]))
        raise IRError('cexpr ' + op)

    # ------------------------------------------------------------ operations
    def sgn(self, bits):
        return {8: 'int8_t', 16: 'int16_t', 32: 'int32_t', 64: 'int64_t', 128: 'vf_s128'}[bits]

    def binop(self, op, a, b, ty, flags):
        ty = self.mod.resolve(ty)
        A, B = self.expr(a, ty), self.expr(b, ty)
        if ty.kind == 'float':
            o = {'fadd': '+', 'fsub': '-', 'fmul': '*', 'fdiv': '/'}.get(op)
            if o:
                return '(%s %s %s)' % (A, o, B)
            if op == 'frem':
                return 'fmod(%s, %s)' % (A, B)
            raise IRError('fp binop ' + op)
        if ty.kind != 'int':
            raise IRError('binop on ' + ty.s())
        bits = ty.bits
        U = self.ct(ty)
        if bits == 1:
            o = {'and': '&', 'or': '|', 'xor': '^', 'add': '^', 'sub': '^', 'mul': '&'}.get(op)
            if o is None:
                raise IRError('i1 op ' + op)
            return '((_Bool)(%s %s %s))' % (A, o, B)
        S = self.sgn(bits)
        W = 'uint32_t' if bits < 32 else U      # avoid promotion to signed int
        if op in ('add', 'sub', 'mul'):
            o = {'add': '+', 'sub': '-', 'mul': '*'}[op]
            if 'nsw' in flags and bits >= 32:
                return '((%s)((%s)%s %s (%s)%s))' % (U, S, A, o, S, B)
            if 'nsw' in flags:
                self.helpers_needed.add('nsw_small')
                return '((%s)vf_nsw%d((int32_t)(%s)%s %s (int32_t)(%s)%s))' % (U, bits, S, A, o, S, B)
            if 'nuw' in flags and self.strict_nuw:
                fn = {'add': '__CPROVER_overflow_plus', 'sub': '__CPROVER_overflow_minus',
                      'mul': '__CPROVER_overflow_mult'}[op]
                return '(vf_nuw(!%s(%s, %s)), (%s)((%s)%s %s (%s)%s))' % (fn, A, B, U, W, A, o, W, B)
            return '((%s)((%s)%s %s (%s)%s))' % (U, W, A, o, W, B)
        if op in ('and', 'or', 'xor'):
            o = {'and': '&', 'or': '|', 'xor': '^'}[op]
            return '((%s)(%s %s %s))' % (U, A, o, B)
        if op in ('udiv', 'urem'):
            o = '/' if op == 'udiv' else '%'
            return '((%s)(%s %s %s))' % (U, A, o, B)
        if op in ('sdiv', 'srem'):
            o = '/' if op == 'sdiv' else '%'
            return '((%s)((%s)%s %s (%s)%s))' % (U, S, A, o, S, B)
        if op == 'shl':
            return '((%s)((%s)%s << %s))' % (U, W, A, B)
        if op == 'lshr':
            return '((%s)((%s)%s >> %s))' % (U, W, A, B)
        if op == 'ashr':
            return '((%s)((%s)%s >> %s))' % (U, S, A, B)
        raise IRError('binop ' + op)

    def icmp(self, pred, a, b):
        ty = self.mod.resolve(a.ty)
        A, B = self.expr(a, ty), self.expr(b, ty)
        if ty.kind == 'ptr':
            o = {'eq': '==', 'ne': '!=', 'ugt': '>', 'uge': '>=', 'ult': '<', 'ule': '<=',
                 'sgt': '>', 'sge': '>=', 'slt': '<', 'sle': '<='}[pred]
            if pred in ('eq', 'ne'):
                return '((_Bool)(%s %s %s))' % (A, o, B)
            return '((_Bool)((uint8_t*)%s %s (uint8_t*)%s))' % (A, o, B)
        if ty.kind != 'int':
            raise IRError('icmp on ' + ty.s())
        if pred in ('eq', 'ne', 'ugt', 'uge', 'ult', 'ule'):
            o = {'eq': '==', 'ne': '!=', 'ugt': '>', 'uge': '>=', 'ult': '<', 'ule': '<='}[pred]
            return '((_Bool)(%s %s %s))' % (A, o, B)
        o = {'sgt': '>', 'sge': '>=', 'slt': '<', 'sle': '<='}[pred]
        if ty.bits == 1:
            # signed i1: 1 means -1
            return '((_Bool)(-(int)%s %s -(int)%s))' % (A, o, B)
        S = self.sgn(ty.bits)
        return '((_Bool)((%s)%s %s (%s)%s))' % (S, A, o, S, B)

    def fcmp(self, pred, a, b):
        A, B = self.expr(a), self.expr(b)
        m = {
            'oeq': '(%s == %s)', 'ogt': '(%s > %s)', 'oge': '(%s >= %s)', 'olt': '(%s < %s)',
            'ole': '(%s <= %s)', 'une': '(%s != %s)',
            'ugt': '(!(%s <= %s))', 'uge': '(!(%s < %s))', 'ult': '(!(%s >= %s))', 'ule': '(!(%s > %s))',
        }
        if pred in m:
            return '((_Bool)%s)' % (m[pred] % (A, B))
        if pred == 'one':
            return '((_Bool)(%s < %s || %s > %s))' % (A, B, A, B)
        if pred == 'ueq':
            return '((_Bool)!(%s < %s || %s > %s))' % (A, B, A, B)
        if pred == 'ord':
            return '((_Bool)(%s == %s && %s == %s))' % (A, A, B, B)
        if pred == 'uno':
            return '((_Bool)(%s != %s || %s != %s))' % (A, A, B, B)
        if pred == 'true':
            return '1'
        if pred == 'false':
            return '0'
        raise IRError('fcmp ' + pred)

    def cast(self, op, a, to):
        fr = self.mod.resolve(a.ty)
        to = self.mod.resolve(to)
        A = self.expr(a, fr)
        T = self.ct(to)
        if op == 'bitcast':
            if fr.kind == 'ptr' and to.kind == 'ptr':
                if fr.s() == to.s():
                    return A
                return '((%s)%s)' % (T, A)
            if fr.kind == 'float' and to.kind == 'int':
                self.helpers_needed.add('fpbits')
                return ('vf_d2u(%s)' if fr.name == 'double' else 'vf_f2u(%s)') % A
            if fr.kind == 'int' and to.kind == 'float':
                self.helpers_needed.add('fpbits')
                return ('vf_u2d(%s)' if to.name == 'double' else 'vf_u2f(%s)') % A
            if fr.s() == to.s():
                return A
            raise IRError('bitcast %s -> %s' % (fr.s(), to.s()))
        if op in ('trunc', 'zext'):
            if to.bits == 1:
                return '((_Bool)(%s & 1))' % A
            return '((%s)%s)' % (T, A)
        if op == 'sext':
            if fr.bits == 1:
                return '(%s ? (%s)~(%s)0 : (%s)0)' % (A, T, T, T)
            return '((%s)(%s)(%s)%s)' % (T, self.sgn(to.bits), self.sgn(fr.bits), A)
        if op in ('fptrunc', 'fpext'):
            return '((%s)%s)' % (T, A)
        if op == 'fptosi':
            if to.bits < 8:
                raise IRError('fptosi to i%d' % to.bits)
            return '((%s)(%s)%s)' % (T, self.sgn(to.bits), A)
        if op == 'fptoui':
            return '((%s)%s)' % (T, A)
        if op == 'sitofp':
            if fr.bits == 1:
                return '((%s)(%s ? -1 : 0))' % (T, A)
            return '((%s)(%s)%s)' % (T, self.sgn(fr.bits), A)
        if op == 'uitofp':
            return '((%s)%s)' % (T, A)
        if op == 'ptrtoint':
            return '((%s)(uint64_t)%s)' % (T, A)
        if op == 'inttoptr':
            return '((%s)(uint64_t)%s)' % (T, A)
        if op == 'addrspacecast':
            return '((%s)%s)' % (T, A)
        raise IRError('cast ' + op)

    def gep(self, sty, ops, rty):
        base = ops[0]
        idx = ops[1:]
        B = self.expr(base)
        t = sty
        # first index: pointer arithmetic
        i0 = idx[0]
        if self.mod.resolve(t).kind == 'struct' and self.mod.resolve(t).opaque:
            raise IRError('gep on opaque')
        self.need_complete(t)
        if i0.k == 'int' and i0.v == 0:
            L = '(*%s)' % B
        else:
            L = '(%s)[%s]' % (B, self.sidx(i0))
        only_first = len(idx) == 1
        for ix in idx[1:]:
            t = self.mod.resolve(t)
            if t.kind == 'struct':
                L = '%s.f%d' % (L, ix.v)
                t = t.fields[ix.v]
            elif t.kind == 'arr':
                L = '%s[%s]' % (L, self.sidx(ix))
                t = t.elem
            else:
                raise IRError('gep into ' + t.s())
        if only_first:
            if i0.k == 'int' and i0.v == 0:
                return B
            return '(%s + %s)' % (B, self.sidx(i0))
        return '(&%s)' % L

    def sidx(self, ix):
        if ix.k == 'int':
            return '%d' % ix.v
        return '(%s)%s' % (self.sgn(ix.ty.bits), self.expr(ix))

    # ------------------------------------------------------------ functions
    def string_of_global(self, v):
        """Resolve a constant i8* argument to a python string (for assert ids)."""
        while v.k == 'cexpr' and v.v in ('getelementptr', 'bitcast'):
            v = v.ops[0]
        if v.k != 'global':
            return None
        g = self.mod.globals.get(v.v)
        if g is None or g.init is None:
            return None
        if g.init.k == 'cstr':
            return g.init.v.rstrip(b'\0').decode('latin1')
        return None

    def emit_all(self):
        for e in self.entries:
            self.need_func(e, True)
        bodies = []
        while self.needed_funcs or self.needed_globals:
            while self.needed_globals:
                self.emit_global(self.needed_globals.pop())
            if not self.needed_funcs:
                break
            name = self.needed_funcs.pop()
            f = self.mod.funcs.get(name)
            if f is None:
                raise IRError('unknown function @' + name)
            called = self.seen_funcs[name]
            if f.is_decl:
                self.proto(f)
                if name.startswith('llvm.'):
                    continue
                self.externals.add(name)
                continue
            if not called and not any(r.search(name) for r in self.vcall_allow):
                self.trap_stubs.add(name)
                self.proto(f)
                continue
            self.proto(f)
            bodies.append(self.emit_func(f))
        for name in sorted(self.trap_stubs):
            f = self.mod.funcs[name]
            bodies.append(self.trap_body(f))
        return bodies

    def sig(self, f, cname=None):
        ps = []
        for (t, pn, pa) in f.params:
            ps.append('%s v_%s' % (self.ct(t), san(pn)))
        if f.vararg:
            ps.append('...')
        if not ps:
            ps = ['void']
        return '%s %s(%s)' % (self.ct(f.ret), cname or self.fname(f.name), ', '.join(ps))

    def proto(self, f):
        if f.name.startswith('llvm.'):
            return
        self.protos.append(self.sig(f) + ';')

    def trap_body(self, f):
        r = ''
        if f.ret.kind != 'void':
            r = ' return %s;' % self.zero(f.ret)
        return '%s {\n  __CPROVER_assert(0, "VFINFRA: address-taken-only function reached: %s");\n  __CPROVER_assume(0);%s\n}\n' % (
            self.sig(f), f.name, r)

    def emit_global(self, name):
        g = self.mod.globals[name]
        cn = 'g_' + san(name)
        try:
            self.need_complete(g.ty)
            T = self.ct(g.ty)
        except IRError:
            T = None
        if g.init is None:
            # external data: opaque storage
            if T is None or (self.mod.resolve(g.ty).kind == 'struct' and self.mod.resolve(g.ty).opaque) \
                    or (g.ty.kind == 'struct' and g.ty.name and self.struct_done.get(g.ty.name) != 'done'):
                self.global_defs.append(('ext', 'struct s_%s_storage { char b[256]; } ;' % san(name)))
                # give it the incomplete struct type via a union trick is not possible: use char array and cast
                self.global_defs.append(('extdef', name))
                return
            self.global_defs.append(('def', '%s %s;' % (T, cn)))
            self.externals.add('@' + name)
            return
        init = self.const_init(g.init, g.ty)
        self.global_defs.append(('def', '%s%s %s = %s;' % ('', T, cn, init)))

    def emit_func(self, f):
        mod = self.mod
        out = []
        decls = {}
        body = []
        blocks = f.blocks
        self.encoded.append(f.name)
        bmap = {b.name: b for b in blocks}
        nounw = f.nounwind()
        self.cur_defs = {}
        for b_ in blocks:
            for i_ in b_.instrs:
                if i_.res is not None:
                    self.cur_defs[i_.res] = i_
        self.cur_ptypes = {pn: t for (t, pn, pa) in f.params}

        def declare(name, ty):
            decls['v_' + san(name)] = self.ct(ty)

        def retdefault():
            if f.ret.kind == 'void':
                return 'return;'
            return 'return %s;' % self.zero(f.ret)

        def edge(frm, to):
            tb = bmap[to]
            tmps = []
            assigns = []
            for ins in tb.instrs:
                if ins.op != 'phi':
                    break
                for v, l in zip(ins.ops, ins.a['labels']):
                    if l == frm:
                        tn = 'p_%s' % san(ins.res)
                        decls[tn] = self.ct(ins.ty)
                        if v.k == 'undef':
                            break
                        tmps.append('%s = %s;' % (tn, self.expr(v, ins.ty)))
                        assigns.append('v_%s = %s;' % (san(ins.res), tn))
                        break
                else:
                    raise IRError('phi without incoming for %s in %s' % (frm, f.name))
            return ' '.join(tmps + assigns + ['goto L_%s;' % san(to)])

        for (t, pn, pa) in f.params:
            if 'byval' in pa:
                et = t.elem
                self.need_complete(et)
                decls['bv_' + san(pn)] = self.ct(et)
                body.append('  bv_%s = *v_%s; v_%s = &bv_%s;' % (san(pn), san(pn), san(pn), san(pn)))

        for b in blocks:
            body.append('L_%s: ;' % san(b.name))
            for ins in b.instrs:
                op = ins.op
                if ins.res is not None and ins.ty is not None and ins.ty.kind != 'void':
                    declare(ins.res, ins.ty)
                R = 'v_' + san(ins.res) if ins.res is not None else None
                if op == 'phi':
                    continue
                if op in ('add', 'sub', 'mul', 'udiv', 'sdiv', 'urem', 'srem', 'shl', 'lshr', 'ashr', 'and',
                          'or', 'xor', 'fadd', 'fsub', 'fmul', 'fdiv', 'frem'):
                    body.append('  %s = %s;' % (R, self.binop(op, ins.ops[0], ins.ops[1], ins.ty, ins.a['flags'])))
                elif op == 'fneg':
                    body.append('  %s = -%s;' % (R, self.expr(ins.ops[0])))
                elif op == 'icmp':
                    body.append('  %s = %s;' % (R, self.icmp(ins.a['pred'], ins.ops[0], ins.ops[1])))
                elif op == 'fcmp':
                    body.append('  %s = %s;' % (R, self.fcmp(ins.a['pred'], ins.ops[0], ins.ops[1])))
                elif op in ('trunc', 'zext', 'sext', 'fptrunc', 'fpext', 'fptoui', 'fptosi', 'uitofp', 'sitofp',
                            'ptrtoint', 'inttoptr', 'bitcast', 'addrspacecast'):
                    body.append('  %s = %s;' % (R, self.cast(op, ins.ops[0], ins.ty)))
                elif op == 'getelementptr':
                    body.append('  %s = %s;' % (R, self.gep(ins.a['sty'], ins.ops, ins.ty)))
                elif op == 'load':
                    self.need_complete(ins.ty)
                    body.append('  %s = *%s;' % (R, self.expr(ins.ops[0])))
                elif op == 'store':
                    v, p = ins.ops
                    self.need_complete(v.ty)
                    body.append('  *%s = %s;' % (self.expr(p), self.expr(v)))
                elif op == 'alloca':
                    aty = ins.a['aty']
                    self.need_complete(aty)
                    an = 'a_' + san(ins.res)
                    if ins.ops:
                        c = ins.ops[0]
                        if c.k == 'int':
                            decls[an + '[%d]' % max(c.v, 1)] = self.ct(aty)
                            body.append('  %s = &%s[0];' % (R, an))
                        else:
                            body.append('  %s = (%s)malloc(sizeof(%s) * %s); __CPROVER_assume(%s != 0);' % (
                                R, self.ct(ins.ty), self.ct(aty), self.expr(c), R))
                    else:
                        decls[an] = self.ct(aty)
                        body.append('  %s = &%s;' % (R, an))
                elif op == 'select':
                    c, a, bb = ins.ops
                    body.append('  %s = %s ? %s : %s;' % (R, self.expr(c), self.expr(a), self.expr(bb)))
                elif op == 'freeze':
                    body.append('  %s = %s;' % (R, self.expr(ins.ops[0])))
                elif op == 'extractvalue':
                    acc = self.aggexpr(ins.ops[0])
                    t = ins.ops[0].ty
                    for ix in ins.a['idx']:
                        t = mod.resolve(t)
                        if t.kind == 'struct':
                            acc += '.f%d' % ix
                            t = t.fields[ix]
                        else:
                            acc += '[%d]' % ix
                            t = t.elem
                    body.append('  %s = %s;' % (R, acc))
                elif op == 'insertvalue':
                    agg, e = ins.ops
                    self.need_complete(agg.ty)
                    if agg.k in ('undef', 'zero'):
                        body.append('  memset(&%s, 0, sizeof(%s));' % (R, R))
                    else:
                        body.append('  %s = %s;' % (R, self.expr(agg)))
                    acc = R
                    t = agg.ty
                    for ix in ins.a['idx']:
                        t = mod.resolve(t)
                        if t.kind == 'struct':
                            acc += '.f%d' % ix
                            t = t.fields[ix]
                        else:
                            acc += '[%d]' % ix
                            t = t.elem
                    body.append('  %s = %s;' % (acc, self.expr(e)))
                elif op in ('call', 'invoke'):
                    self.emit_call(f, ins, body, R, nounw, retdefault, edge, b)
                elif op == 'landingpad':
                    self.need_complete(ins.ty)
                    body.append('  %s.f0 = (uint8_t*)vf_exc_obj; %s.f1 = (uint32_t)vf_exc_sel; vf_exc = 0;' % (R, R))
                elif op == 'resume':
                    body.append('  vf_exc = 1; vf_exc_obj = (void*)%s.f0; vf_exc_sel = (int)%s.f1; %s' % (
                        self.aggexpr(ins.ops[0]), self.aggexpr(ins.ops[0]), retdefault()))
                elif op == 'ret':
                    if ins.ops:
                        body.append('  return %s;' % self.expr(ins.ops[0], f.ret))
                    else:
                        body.append('  return;')
                elif op == 'br':
                    tg = ins.a['targets']
                    if len(tg) == 1:
                        body.append('  ' + edge(b.name, tg[0]))
                    else:
                        body.append('  if (%s) { %s } else { %s }' % (
                            self.expr(ins.ops[0]), edge(b.name, tg[0]), edge(b.name, tg[1])))
                elif op == 'switch':
                    c = ins.ops[0]
                    body.append('  switch (%s) {' % self.expr(c))
                    seen = set()
                    for cv, tl in ins.a['cases']:
                        body.append('    case %s: { %s }' % (self.intlit(cv, c.ty.bits), edge(b.name, tl)))
                    body.append('    default: { %s }' % edge(b.name, ins.a['default']))
                    body.append('  }')
                elif op == 'unreachable':
                    body.append('  __CPROVER_assume(0); %s' % retdefault())
                elif op == 'atomicrmw':
                    p, v = ins.ops
                    P_, V_ = self.expr(p), self.expr(v)
                    bop = ins.a['bop']
                    body.append('  %s = *%s;' % (R, P_))
                    if bop == 'xchg':
                        body.append('  *%s = %s;' % (P_, V_))
                    else:
                        fake = {'add': 'add', 'sub': 'sub', 'and': 'and', 'or': 'or', 'xor': 'xor'}.get(bop)
                        if not fake:
                            raise IRError('atomicrmw ' + bop)
                        body.append('  *%s = %s;' % (P_, self.binop(fake, Val('local', ins.res, v.ty), v, v.ty, set())))
                elif op == 'cmpxchg':
                    p, c, nv = ins.ops
                    self.need_complete(ins.ty)
                    P_ = self.expr(p)
                    body.append('  %s.f0 = *%s; %s.f1 = (%s.f0 == %s); if (%s.f1) *%s = %s;' % (
                        R, P_, R, R, self.expr(c), R, P_, self.expr(nv)))
                elif op == 'fence':
                    pass
                else:
                    raise IRError('instr ' + op + ' in ' + f.name)
        out.append(self.sig(f) + ' {')
        for n, t in sorted(decls.items()):
            out.append('  %s %s;' % (t, n))
        out.extend(body)
        out.append('}\n')
        return '\n'.join(out)

    def mem_elem(self, v):
        # element type behind an i8* operand of a memory intrinsic (looks through bitcasts / i8 geps)
        for _ in range(4):
            if v.k == 'local':
                ins = self.cur_defs.get(v.v)
                if ins is None:
                    # function parameter
                    t = self.cur_ptypes.get(v.v)
                    break
                if ins.op == 'bitcast':
                    v = ins.ops[0]
                    t = v.ty
                    if t.kind == 'ptr' and not (t.elem.kind == 'int' and t.elem.bits == 8):
                        break
                    continue
                t = ins.ty
                break
            elif v.k == 'cexpr' and v.v == 'bitcast':
                v = v.ops[0]
                t = v.ty
                break
            else:
                t = v.ty
                break
        if t is None or t.kind != 'ptr':
            return None
        e = self.mod.resolve(t.elem)
        while e.kind == 'arr':
            e = self.mod.resolve(e.elem)
        if e.kind in ('float', 'ptr') or (e.kind == 'int' and e.bits in (16, 32, 64)):
            return e
        return None

    def aggexpr(self, v):
        if v.k == 'local':
            return 'v_' + san(v.v)
        return self.expr(v)

    def emit_call(self, f, ins, body, R, nounw, retdefault, edge, b):
        callee = ins.ops[0]
        args = ins.ops[1:]
        rty = ins.ty
        has_res = R is not None and rty.kind != 'void'
        if rty.kind != 'void':
            self.need_complete(rty)
        name = None
        c = callee
        while c.k == 'cexpr' and c.v == 'bitcast':
            c = c.ops[0]
        if c.k == 'global':
            name = self.resolve_alias(c.v)
            # modular step: a recursive self-call is replaced by the harness's contract
            if name == f.name and name in self.contracts:
                name = self.contracts[name]
                self.contract_uses.append((f.name, name))
        asg = (R + ' = ') if has_res else ''
        may_throw = True

        def fin():
            # exception propagation / invoke edges
            if ins.op == 'invoke':
                body.append('  if (vf_exc) { %s } else { %s }' % (
                    edge(b.name, ins.a['unwind']), edge(b.name, ins.a['normal'])))
            elif may_throw:
                body.append('  if (vf_exc) { %s }' % retdefault())

        if name is not None and name.startswith('llvm.'):
            may_throw = False
            self.intrinsic(name, ins, args, body, R)
            fin()
            return
        if name is not None:
            A = [self.expr(a) for a in args]
            # framework primitives
            if name == 'vf_assert_':
                sid = self.string_of_global(args[1]) or ('assert%d' % len(self.assert_ids))
                self.assert_ids.append(sid)
                body.append('  __CPROVER_assert(%s, "VF:%s");' % (A[0], sid))
                body.append('  vf_assert_rt(%s, "%s");' % (A[0], sid))
                return
            if name == 'vf_assume':
                body.append('  __CPROVER_assume(%s); vf_assume_rt(%s);' % (A[0], A[0]))
                return
            if name == 'vf_split':
                return
            if name == 'vf_witness':
                body.append('#ifdef VF_WITNESS\n  __CPROVER_assert(0, "VFWITNESS"); vf_witness_rt();\n#endif')
                return
            fobj = self.mod.funcs.get(name)
            if fobj is None:
                raise IRError('call to unknown @' + name)
            if fobj.is_decl and name in LIBM1 | LIBM2 and name not in self.stubs:
                body.append('  %s%s(%s);' % (asg, name, ', '.join(A)))
                return
            fn = self.need_func(name, True)
            if 'nounwind' in fobj.attrs or 'nounwind' in ins.a['cattrs']:
                may_throw = False
            # argument/return type adaptation when called through a bitcast
            want = fobj.ftype
            if c is not callee or len(want.params) != len(args):
                fty = ins.a['fty'] or FuncT(rty, [a.ty for a in args], False)
                body.append('  %s((%s*)%s)(%s);' % (asg, self.ct(fty), fn, ', '.join(A)))
            else:
                A2 = []
                for a, pt, s in zip(args, want.params, A):
                    if a.ty.s() != pt.s():
                        s = '((%s)%s)' % (self.ct(pt), s)
                    A2.append(s)
                A2 += A[len(want.params):]
                body.append('  %s%s(%s);' % (asg, fn, ', '.join(A2)))
            fin()
            return
        # indirect call
        A = [self.expr(a) for a in args]
        fty = ins.a['fty'] or FuncT(rty, [a.ty for a in args], False)
        body.append('  %s((%s*)%s)(%s);' % (asg, self.ct(fty), self.expr(callee), ', '.join(A)))
        fin()

    def intrinsic(self, name, ins, args, body, R):
        A = [self.expr(a) for a in args]
        base = name.split('.')[1]
        full = name[5:]
        asg = (R + ' = ') if R is not None and ins.ty.kind != 'void' else ''
        if base in ('lifetime', 'dbg', 'assume', 'experimental', 'invariant', 'donothing', 'prefetch',
                    'var', 'annotation', 'ptr', 'sideeffect', 'pseudoprobe'):
            if asg:
                body.append('  %s%s;' % (asg, self.zero(ins.ty)))
            return
        if base in ('memcpy', 'memmove', 'memset'):
            n = args[2]
            if n.k == 'int':
                body.append('  vf_%s(%s, %s, %s);' % (base, A[0], A[1], A[2]))
                return
            # symbolic length: element-typed loop when the element type is known
            et = self.mem_elem(args[0]) or (self.mem_elem(args[1]) if base != 'memset' else None)
            if et is not None:
                T = self.ct(et)
                sz = self.mod.sizeof(et)
                if base == 'memset':
                    self.helpers_needed.add('memset_' + T)
                    body.append('  vf_memset_%s((%s*)%s, %s, %s / %d);' % (T, T, A[0], A[1], A[2], sz))
                else:
                    self.helpers_needed.add('memmove_' + T)
                    body.append('  vf_memmove_%s((%s*)%s, (%s*)%s, %s / %d);' % (T, T, A[0], T, A[1], A[2], sz))
                return
            body.append('  vf_%s_bytes(%s, %s, %s);' % (base, A[0], A[1], A[2]))
            return
        if base in ('fabs', 'sqrt', 'floor', 'ceil', 'trunc', 'rint', 'nearbyint', 'round', 'exp', 'log',
                    'log2', 'log10', 'cos', 'sin', 'exp2'):
            suf = 'f' if ins.ty.kind == 'float' and ins.ty.name == 'float' else ''
            body.append('  %s%s%s(%s);' % (asg, base, suf, A[0]))
            return
        if base in ('pow', 'copysign', 'minnum', 'maxnum', 'minimum', 'maximum'):
            fn = {'pow': 'pow', 'copysign': 'copysign', 'minnum': 'fmin', 'maxnum': 'fmax',
                  'minimum': 'fmin', 'maximum': 'fmax'}[base]
            body.append('  %s%s(%s, %s);' % (asg, fn, A[0], A[1]))
            return
        if base == 'powi':
            body.append('  %spow(%s, (double)(int32_t)%s);' % (asg, A[0], A[1]))
            return
        if base == 'fmuladd' or base == 'fma':
            body.append('  %s(%s * %s + %s);' % (asg, A[0], A[1], A[2]))
            return
        if base in ('smax', 'smin', 'umax', 'umin'):
            bits = ins.ty.bits
            if base[0] == 's':
                S = self.sgn(bits)
                o = '>' if base == 'smax' else '<'
                body.append('  %s((%s)%s %s (%s)%s) ? %s : %s;' % (asg, S, A[0], o, S, A[1], A[0], A[1]))
            else:
                o = '>' if base == 'umax' else '<'
                body.append('  %s(%s %s %s) ? %s : %s;' % (asg, A[0], o, A[1], A[0], A[1]))
            return
        if base == 'abs':
            S = self.sgn(ins.ty.bits)
            body.append('  %s((%s)%s < 0) ? (%s)(-(%s)%s) : %s;' % (asg, S, A[0], self.ct(ins.ty), S, A[0], A[0]))
            return
        if base == 'expect':
            body.append('  %s%s;' % (asg, A[0]))
            return
        if base == 'is':
            body.append('  %s0;' % asg)
            return
        if base == 'objectsize':
            body.append('  %s%s;' % (asg, self.intlit(-1 if args[1].v == 0 else 0, ins.ty.bits)))
            return
        if base == 'trap':
            body.append('  __CPROVER_assert(0, "VFINFRA: llvm.trap reached"); __CPROVER_assume(0);')
            return
        if base in ('stacksave',):
            body.append('  %s%s;' % (asg, self.zero(ins.ty)))
            return
        if base in ('stackrestore',):
            return
        if base in ('umul', 'uadd', 'usub', 'smul', 'sadd', 'ssub') and '.with.overflow.' in name:
            bits = args[0].ty.bits
            U = self.ct(args[0].ty)
            o = {'mul': '*', 'add': '+', 'sub': '-'}[base[1:]]
            fn = {'mul': '__builtin_mul_overflow', 'add': '__builtin_add_overflow', 'sub': '__builtin_sub_overflow'}[base[1:]]
            self.need_complete(ins.ty)
            if base[0] == 'u':
                body.append('  { %s t_; %s.f1 = %s(%s, %s, &t_); %s.f0 = t_; }' % (U, R, fn, A[0], A[1], R))
            else:
                S = self.sgn(bits)
                body.append('  { %s t_; %s.f1 = %s((%s)%s, (%s)%s, &t_); %s.f0 = (%s)t_; }' % (
                    S, R, fn, S, A[0], S, A[1], R, U))
            return
        if base == 'eh' and 'typeid' in name:
            body.append('  %s(uint32_t)vf_typeid_for((void*)%s);' % (asg, A[0]))
            return
        if base in ('ctpop', 'ctlz', 'cttz', 'bswap'):
            bits = ins.ty.bits
            suf = 'll' if bits == 64 else ''
            if base == 'bswap':
                body.append('  %s__builtin_bswap%d(%s);' % (asg, bits, A[0]))
            elif base == 'ctpop':
                body.append('  %s(%s)__builtin_popcount%s(%s);' % (asg, self.ct(ins.ty), suf, A[0]))
            else:
                fn = '__builtin_clz' if base == 'ctlz' else '__builtin_ctz'
                adj = ''
                if base == 'ctlz' and bits < 32:
                    adj = ' - %d' % (32 - bits)
                body.append('  %s(%s == 0) ? (%s)%d : (%s)(%s%s(%s)%s);' % (
                    asg, A[0], self.ct(ins.ty), bits, self.ct(ins.ty), fn, suf, A[0], adj))
            return
        if base in ('fshl', 'fshr'):
            bits = ins.ty.bits
            U = self.ct(ins.ty)
            W = 'uint64_t' if bits == 64 else 'uint32_t'
            sh = '(%s %% %d)' % (A[2], bits)
            if base == 'fshl':
                body.append('  %s(%s)(%s == 0 ? %s : (((%s)%s << %s) | ((%s)%s >> (%d - %s))));' % (
                    asg, U, sh, A[0], W, A[0], sh, W, A[1], bits, sh))
            else:
                body.append('  %s(%s)(%s == 0 ? %s : (((%s)%s << (%d - %s)) | ((%s)%s >> %s)));' % (
                    asg, U, sh, A[1], W, A[0], bits, sh, W, A[1], sh))
            return
        if base == 'fptosi' or base == 'fptoui':  # .sat
            raise IRError('saturating fp conversion')
        raise IRError('intrinsic ' + name)


PRELUDE = r'''/* generated by /verif/vf/ir2c.py from the LLVM IR of the current /repo tree */
#include <stdint.h>
#include <stddef.h>
#include <string.h>
#include <stdlib.h>
#include <math.h>
typedef unsigned __int128 vf_u128;
typedef __int128 vf_s128;
#ifndef __CPROVER__
#define __CPROVER_assert(c, m) ((void)0)
#define __CPROVER_assume(c) ((void)0)
#endif
extern int vf_exc; extern void* vf_exc_obj; extern int vf_exc_sel;
int vf_typeid_for(void*);
void vf_assert_rt(_Bool c, const char* id);
void vf_assume_rt(_Bool c);
void vf_witness_rt(void);
void vf_nuw(_Bool ok);
static inline void vf_memcpy(void* d, const void* s, uint64_t n) { if (n) memcpy(d, s, n); }
static inline void vf_memmove(void* d, const void* s, uint64_t n) { if (n) memmove(d, s, n); }
static inline void vf_memset(void* d, uint8_t c, uint64_t n) { if (n) memset(d, c, n); }
#ifndef __CPROVER__
#define __CPROVER_POINTER_OBJECT(p) 0
#endif
static void vf_memcpy_bytes(void* d, const void* s, uint64_t n) { for (uint64_t i = 0; i < n; i++) ((uint8_t*)d)[i] = ((const uint8_t*)s)[i]; }
static void vf_memmove_bytes(void* d, const void* s, uint64_t n) {
  if (__CPROVER_POINTER_OBJECT(d) == __CPROVER_POINTER_OBJECT(s) && (uint8_t*)d > (const uint8_t*)s) for (uint64_t i = n; i > 0; i--) ((uint8_t*)d)[i-1] = ((const uint8_t*)s)[i-1];
  else for (uint64_t i = 0; i < n; i++) ((uint8_t*)d)[i] = ((const uint8_t*)s)[i]; }
static void vf_memset_bytes(void* d, uint8_t c, uint64_t n) { for (uint64_t i = 0; i < n; i++) ((uint8_t*)d)[i] = c; }
static inline uint64_t vf_d2u(double d) { uint64_t u; memcpy(&u, &d, 8); return u; }
static inline double vf_u2d(uint64_t u) { double d; memcpy(&d, &u, 8); return d; }
static inline uint32_t vf_f2u(float d) { uint32_t u; memcpy(&u, &d, 4); return u; }
static inline float vf_u2f(uint32_t u) { float d; memcpy(&d, &u, 4); return d; }
static inline int32_t vf_nsw8(int32_t x) { __CPROVER_assert(x >= -128 && x <= 127, "arithmetic overflow on signed i8 (nsw)"); return x; }
static inline int32_t vf_nsw16(int32_t x) { __CPROVER_assert(x >= -32768 && x <= 32767, "arithmetic overflow on signed i16 (nsw)"); return x; }
'''


def translate(mod, entries, vcall_allow=(), stubs_defined=(), strict_nuw=False, contracts=None):
    cx = Ctx(mod, entries, vcall_allow, stubs_defined, strict_nuw, contracts=contracts)
    bodies = cx.emit_all()
    out = [PRELUDE]
    out.extend(cx.tdecls)
    out.append('')
    for h in sorted(cx.helpers_needed):
        if h.startswith('memmove_'):
            T = h[len('memmove_'):]
            out.append('static void vf_memmove_%s(%s* d, %s* s, uint64_t n) {\n'
                       '  if (n == 0 || d == s) return;\n'
                       '  if (__CPROVER_POINTER_OBJECT(d) == __CPROVER_POINTER_OBJECT(s) && d > s)\n'
                       '    for (uint64_t i = n; i > 0; i--) d[i - 1] = s[i - 1];\n'
                       '  else for (uint64_t i = 0; i < n; i++) d[i] = s[i];\n}' % (T, T, T))
        elif h.startswith('memset_'):
            T = h[len('memset_'):]
            out.append('static void vf_memset_%s(%s* d, uint8_t c, uint64_t n) {\n'
                       '  %s v; memset(&v, c, sizeof v);\n  for (uint64_t i = 0; i < n; i++) d[i] = v;\n}' % (T, T, T))
    out.extend(sorted(set(cx.protos)))
    out.append('')
    for kind, d in cx.global_defs:
        if kind == 'def':
            out.append(d)
        elif kind == 'extdef':
            out.append('char g_%s[256];' % san(d))
    out.append('')
    out.extend(bodies)
    return '\n'.join(out), cx


if __name__ == '__main__':
    m = load(sys.argv[1])
    text, cx = translate(m, sys.argv[2:])
    sys.stdout.write(text)
    sys.stderr.write('externals: %s\n' % sorted(cx.externals))
    sys.stderr.write('trap stubs: %d\n' % len(cx.trap_stubs))
