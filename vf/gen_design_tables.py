#!/usr/local/bin/python3-vt
"""Prints the 'kernels as built' section of DESIGN.md from the registry."""
import os, sys, re
sys.path.insert(0, os.path.dirname(os.path.abspath(__file__)))
import kernels
from collections import OrderedDict
props = OrderedDict()
for kid, k in kernels.KERNELS.items():
    props.setdefault(k['property'], []).append(k)
out = []
for p in sorted(props):
    ks = props[p]
    out.append('### %s — %d kernels (%d in the quick tier)\n' % (p, len(ks), sum(1 for k in ks if 'quick' in k.get('tiers', ('quick', 'thorough')))))
    # group kernels sharing the same 'what'
    groups = OrderedDict()
    for k in ks:
        groups.setdefault((k.get('what', ''), k['engine'], k['harness']), []).append(k)
    out.append('| kernels | engine | harness | real functions encoded / asserted | bound (quick) | outside the claim |')
    out.append('|---|---|---|---|---|---|')
    for (what, eng, har), g in groups.items():
        ids = [k['id'] for k in g]
        name = ids[0] if len(ids) == 1 else '%s … %s (%d)' % (ids[0], ids[-1], len(ids))
        b = g[0].get('bounds', {})
        bq = b.get('quick', b.get('thorough', '')) if isinstance(b, dict) else str(b)
        def cell(s):
            return str(s).replace('|', '\\|').replace('\n', ' ')
        out.append('| %s | %s | %s | %s | %s | %s |' % (cell(name), eng, har, cell(what), cell(bq), cell(g[0].get('out', ''))))
    stubs = []
    for k in ks:
        for s in k.get('stubs', []):
            if s not in stubs:
                stubs.append(s)
    if stubs:
        out.append('\nStubs/overrides (part of the claim): ' + '; '.join(stubs[:40]) + ('; …' if len(stubs) > 40 else ''))
    out.append('')
print('\n'.join(out))
