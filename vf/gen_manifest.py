#!/usr/local/bin/python3-vt
"""Regenerate MANIFEST.json from the kernel registry (claimed = has at least one kernel)."""
import json, os, sys
sys.path.insert(0, os.path.dirname(os.path.abspath(__file__)))
import kernels
V = os.path.dirname(os.path.dirname(os.path.abspath(__file__)))
props = [json.loads(l) for l in open(V + '/properties.jsonl')]
claimed = sorted(set(k['property'] for k in kernels.KERNELS.values()))
checks = []
for p in props:
    pid = p['id']
    if pid not in claimed:
        continue
    ks = [k for k in kernels.KERNELS.values() if k['property'] == pid]
    engines = sorted(set(k['engine'] for k in ks))
    tech = []
    if 'symex' in engines:
        tech.append('symbolic execution of clang LLVM IR of the real functions into z3 Int/Real formulas (own encoder), unsat = holds within bound')
    if 'cbmc' in engines:
        tech.append('LLVM IR -> C (own translator) -> cbmc bounded model checking (SAT), unwinding assertions on')
    checks.append({
        'property_id': pid,
        'quick_cmd': './check %s --tier quick' % pid,
        'thorough_cmd': './check %s --tier thorough' % pid,
        'evidence_file': '/verif/evidence/%s.json' % pid,
        'replay_cmd_template': './check %s --replay {path}' % pid,
        'engine': '+'.join(engines),
        'level_claimed': {
            'category': 'model_checking',
            'text': 'bounded symbolic checking of the compiled real functions: the solver verdict covers all values of the '
                    'symbolic inputs within the bounds listed in evidence; nothing is claimed outside them. ' + kernels.CLAIMS.get(pid, ''),
            'design_ref': 'DESIGN.md section 2, ' + pid,
        },
        'level_note': kernels.NOTES.get(pid, '') + ' Kernels: ' + '; '.join('%s [%s]' % (k['id'], k.get('what', '')[:140]) for k in ks),
        'technique': '; '.join(tech),
    })
na = [{'property_id': p['id'], 'reason': kernels.NOT_APPLICABLE.get(p['id'], 'no kernel built yet in this session (see DESIGN.md)')}
      for p in props if p['id'] not in claimed]
m = {
    'version': 1,
    'setup_cmd': './setup.sh',
    'hooks': {'guard': 'GSTLEARN_VERIF', 'enable': 'none needed: harnesses reach private state with -fno-access-control and static functions by #include of the .cpp', 
              'baseline_off_cmd': 'cmake --build /repo/_build -j16 && ctest --test-dir /repo/_build -j8 --timeout 900',
              'source_commits': [], 'add_only': True},
    'engines': [
        {'name': 'E2-symex', 'path': 'vf/symex.py', 'serves_properties': sorted(set(k['property'] for k in kernels.KERNELS.values() if k['engine'] == 'symex')),
         'kind_free_text': 'own guarded symbolic executor over clang-14 LLVM IR, z3 Int/Real, state merging, per-run translator validation and native replay'},
        {'name': 'E1-ir2c-cbmc', 'path': 'vf/ir2c.py', 'serves_properties': sorted(set(k['property'] for k in kernels.KERNELS.values() if k['engine'] == 'cbmc')),
         'kind_free_text': 'own LLVM IR -> C translator feeding cbmc 6.11 (bit-precise)'},
    ],
    'checks': checks,
    'not_applicable': na,
    'notes': 'See DESIGN.md. Every check regenerates its encoding from /repo working-tree sources on every run.',
}
json.dump(m, open(V + '/MANIFEST.json', 'w'), indent=1)
import jsonschema
jsonschema.validate(m, json.load(open('/root/.vp/MANIFEST.schema.json')))
print('MANIFEST ok: claimed', claimed)
