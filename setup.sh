#!/bin/bash
# offline setup: nothing to download. Makes sure the repository's own build exists (object files
# are used to link native replay binaries) and that scratch directories exist.
set -e
cd "$(dirname "$0")"
mkdir -p build evidence
if [ ! -d /repo/_build/CMakeFiles/shared.dir ] || [ -z "$(find /repo/_build/CMakeFiles/shared.dir -name '*.o' -print -quit)" ]; then
  echo "building /repo (needed for native replay linking)"
  cmake -G Ninja -S /repo -B /repo/_build -DCMAKE_BUILD_TYPE=RelWithDebInfo >/dev/null
  cmake --build /repo/_build -j16 --target shared >/dev/null
fi
/usr/local/bin/python3-vt -c "import z3; print('z3', z3.get_version_string())"
cbmc --version
echo setup ok
